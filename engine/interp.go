package main

import (
	"fmt"
	"os"
	"runtime/debug"
	"go/token"
	"go/types"
	"slices"
	"strings"
	"sync"

	"golang.org/x/tools/go/ssa"
)

// ---------- shared program ----------

type Prog struct {
	prog        *ssa.Program
	dns         *ssa.Package
	pkgByPath   map[string]*ssa.Package
	runtimeErrT types.Type
	fnInfoMu    sync.Mutex
	fnInfos     map[*ssa.Function]*fnInfo
	methMu      sync.Mutex
	methCache   map[methKey]*ssa.Function
	initWhite   map[string]bool
}

type methKey struct {
	t    types.Type
	name string
}

type fnInfo struct {
	idx     map[ssa.Value]int
	n       int
	ext     externFn
	name    string
	pure    int8 // 0 unknown, 1 pure-scalar, -1 not
	firstNP []int
	merge   map[*ssa.BasicBlock]*mergeRegion
}

func (P *Prog) info(fn *ssa.Function) *fnInfo {
	P.fnInfoMu.Lock()
	defer P.fnInfoMu.Unlock()
	if fi, ok := P.fnInfos[fn]; ok {
		return fi
	}
	fi := &fnInfo{idx: map[ssa.Value]int{}, name: fn.String()}
	n := 0
	for _, p := range fn.Params {
		fi.idx[p] = n
		n++
	}
	for _, p := range fn.FreeVars {
		fi.idx[p] = n
		n++
	}
	fi.firstNP = make([]int, len(fn.Blocks))
	for bi, b := range fn.Blocks {
		fi.firstNP[bi] = len(b.Instrs)
		seen := false
		for ii, ins := range b.Instrs {
			if v, ok := ins.(ssa.Value); ok {
				fi.idx[v] = n
				n++
			}
			if _, isPhi := ins.(*ssa.Phi); !isPhi && !seen {
				fi.firstNP[bi] = ii
				seen = true
			}
		}
	}
	fi.n = n
	if fn.Parent() == nil {
		fi.ext = externals[fi.name]
	}
	P.fnInfos[fn] = fi
	return fi
}

func (P *Prog) lookupMethod(t types.Type, m *types.Func) *ssa.Function {
	k := methKey{t, m.Id()}
	P.methMu.Lock()
	defer P.methMu.Unlock()
	if f, ok := P.methCache[k]; ok {
		return f
	}
	f := P.prog.LookupMethod(t, m.Pkg(), m.Name())
	P.methCache[k] = f
	return f
}

// ---------- per-worker interpreter ----------

type pathAbort struct {
	kind string // unsupported | budget | infeasible | done
	msg  string
}

type targetPanic struct {
	v value
}

type undoEntry struct {
	p   *value
	old value
	fn  func()
}

type deferred struct {
	fn    value
	args  []value
	instr *ssa.Defer
	tail  *deferred
}

type frame struct {
	in               *Interp
	caller           *frame
	fn               *ssa.Function
	fi               *fnInfo
	block, prevBlock *ssa.BasicBlock
	env              []value
	defers           *deferred
	result           value
	panicking        bool
	panic            interface{}
	depth            int
	skipPhis         bool
	curInstr         ssa.Instruction
}

type Interp struct {
	P       *Prog
	ts      *TermStore
	sol     *Solver
	globals map[*ssa.Global]*value
	inited  map[*ssa.Package]bool
	journal []undoEntry
	journaling bool

	// path state
	pc        []*Term
	pcSynced  int
	prefix    []Decision
	pos       int
	trace     []Decision
	newWork   []*WorkItem
	steps     int64
	alloc     int64
	maxSteps  int64
	sliceData map[*value][]value
	res       *PathResult
	cfg       *RunConfig
	stubs     map[string]int
	fnCount   map[*ssa.Function]int64
	curFrame  *frame
	noFork    int // >0: inside speculative merge region; forks abort the merge
	hashes    []int
	natives   map[string]interface{}
	sched     *scheduler
	inInit    bool
	uniq      int
	stats     *workerStats
	pcFacts   map[*Term]bool
	noMerge   bool
	enum2     bool
	bypassExt *ssa.Function // extern wrappers: run this function's own body once
	enumWork  int64
	canonMemo map[*Term]canonEnt
	allowInit *ssa.Function
	uniqueTab map[string]*value
	mergeFail map[*ssa.If]int
	specFresh map[*value]bool
	dom       map[*Term]*[4]uint64
	domVer    map[*Term]int
	simpMemo  map[*Term]simpEnt
}

func (in *Interp) unsupported(format string, args ...interface{}) pathAbort {
	msg := fmt.Sprintf(format, args...)
	if in.curFrame != nil && in.curFrame.fn != nil {
		msg += " in"
		n := 0
		for f := in.curFrame; f != nil && n < 6; f = f.caller {
			msg += " <- " + f.fn.String()
			n++
		}
	}
	return pathAbort{"unsupported", msg}
}

func (in *Interp) targetPanicStr(msg string) {
	panic(targetPanic{iface{in.P.runtimeErrT, mkstr(msg)}})
}

func (in *Interp) store(p *value, v value) {
	if in.noFork > 0 && !in.specFresh[p] {
		panic(mergeAbort{})
	}
	if in.journaling {
		in.journal = append(in.journal, undoEntry{p: p, old: *p})
	}
	*p = v
}

// storeDeep stores an aggregate element by element into the aggregate already in the cell, so that pointers to
// its fields/elements taken earlier stay valid (go/ssa computes the field addresses of `*p = T{...}` before it
// stores the zero value into *p).
func (in *Interp) storeDeep(p *value, v value) {
	switch nv := v.(type) {
	case structV:
		if old, ok := (*p).(structV); ok && len(old) == len(nv) {
			for i := range nv {
				in.storeDeep(&old[i], nv[i])
			}
			return
		}
	case arrayV:
		if old, ok := (*p).(arrayV); ok && len(old) == len(nv) {
			for i := range nv {
				in.storeDeep(&old[i], nv[i])
			}
			return
		}
	}
	in.store(p, v)
}

func (in *Interp) undoAll() {
	for i := len(in.journal) - 1; i >= 0; i-- {
		e := in.journal[i]
		if e.fn != nil {
			e.fn()
		} else {
			*e.p = e.old
		}
	}
	in.journal = in.journal[:0]
}

func (in *Interp) storeVal(p value, v value) {
	switch p := p.(type) {
	case *value:
		if p == nil {
			in.targetPanicStr("runtime error: invalid memory address or nil pointer dereference")
		}
		in.storeDeep(p, copyVal(v))
	case *symPtr:
		ts := in.ts
		nv := in.toTerm(v, p.w)
		for i := range p.base {
			old := in.toTerm(p.base[i], p.w)
			in.store(&p.base[i], norm(ts.Ite(ts.Eq(p.idx, ts.Const(p.idx.w, uint64(i))), nv, old)))
		}
	default:
		panic(in.unsupported("store to %T", p))
	}
}

func (fr *frame) get(key ssa.Value) value {
	switch key := key.(type) {
	case nil:
		return nil
	case *ssa.Function:
		return key
	case *ssa.Builtin:
		return key
	case *ssa.Const:
		return fr.in.constValue(key)
	case *ssa.Global:
		return fr.in.global(key)
	}
	i, ok := fr.fi.idx[key]
	if !ok {
		panic(fmt.Sprintf("get: no slot for %T %v in %s", key, key.Name(), fr.fn))
	}
	return fr.env[i]
}

func (fr *frame) set(key ssa.Value, v value) {
	fr.env[fr.fi.idx[key]] = v
}

func (in *Interp) global(g *ssa.Global) *value {
	if p, ok := in.globals[g]; ok {
		return p
	}
	// lazily create + make sure the package is initialised
	in.ensureInit(g.Pkg)
	if p, ok := in.globals[g]; ok {
		return p
	}
	cell := zero(deref(g.Type()))
	p := &cell
	in.globals[g] = p
	return p
}

func (in *Interp) ensureInit(pkg *ssa.Package) {
	if pkg == nil || in.inited[pkg] {
		return
	}
	in.inited[pkg] = true
	for _, m := range pkg.Members {
		if g, ok := m.(*ssa.Global); ok {
			if _, ok := in.globals[g]; !ok {
				cell := zero(deref(g.Type()))
				in.globals[g] = &cell
			}
		}
	}
	path := pkg.Pkg.Path()
	if !in.P.initWhite[path] {
		return
	}
	if in.journaling {
		// initialisation during a path: do it un-journaled so it persists (it is deterministic and input independent)
		saveJ := in.journaling
		in.journaling = false
		defer func() { in.journaling = saveJ }()
	}
	initFn := pkg.Func("init")
	if initFn != nil {
		saveSteps, saveMax := in.steps, in.maxSteps
		in.maxSteps = 1 << 40
		saveInit := in.inInit
		in.inInit = true
		saveAllow := in.allowInit
		in.allowInit = initFn
		in.callSSA(nil, initFn, nil, nil)
		in.allowInit = saveAllow
		in.inInit = saveInit
		in.steps, in.maxSteps = saveSteps, saveMax
	}
}

// switchChain recognises the blocks go/ssa emits for `case v1, v2, ..., vn:` - a run of blocks that each hold only
// one comparison and an If, all branching to the same target T when true - and returns the disjunction of their
// conditions together with the last block of the run (nil if there is no run of at least two).
func (in *Interp) switchChain(fr *frame, first *ssa.If, c *Term) (*Term, *ssa.BasicBlock) {
	if in.noFork > 0 {
		return nil, nil
	}
	b := first.Block()
	target := b.Succs[0]
	chain := []*ssa.BasicBlock{b}
	or := c
	next := b.Succs[1]
	for len(chain) < 64 {
		if len(next.Instrs) != 2 || len(next.Preds) != 1 || next.Succs == nil || len(next.Succs) != 2 || next.Succs[0] != target {
			break
		}
		bo, ok1 := next.Instrs[0].(*ssa.BinOp)
		iff, ok2 := next.Instrs[1].(*ssa.If)
		if !ok1 || !ok2 || iff.Cond != ssa.Value(bo) || bo.Referrers() == nil || len(*bo.Referrers()) != 1 {
			break
		}
		if _, isParamOrReg := fr.fi.idx[bo.X]; !isParamOrReg {
			if _, isConst := bo.X.(*ssa.Const); !isConst {
				break
			}
		}
		if _, isParamOrReg := fr.fi.idx[bo.Y]; !isParamOrReg {
			if _, isConst := bo.Y.(*ssa.Const); !isConst {
				break
			}
		}
		if bo.X.Parent() != nil && !dominatesOrSame(bo.X, b) || bo.Y.Parent() != nil && !dominatesOrSame(bo.Y, b) {
			break
		}
		v := in.binop(bo.Op, bo.X.Type(), bo.Y.Type(), fr.get(bo.X), fr.get(bo.Y))
		var t *Term
		switch v := v.(type) {
		case bool:
			t = in.ts.Bool(v)
		case *Term:
			if v.w != 0 {
				return nil, nil
			}
			t = v
		default:
			return nil, nil
		}
		or = in.ts.Or(or, t)
		chain = append(chain, next)
		in.steps += 2
		next = next.Succs[1]
	}
	if len(chain) < 2 {
		return nil, nil
	}
	// phis of the target must not distinguish the blocks of the run
	for _, ins := range target.Instrs {
		phi, ok := ins.(*ssa.Phi)
		if !ok {
			break
		}
		var common ssa.Value
		for i, pred := range target.Preds {
			for _, cb := range chain {
				if pred == cb {
					if common == nil {
						common = phi.Edges[i]
					} else if common != phi.Edges[i] {
						return nil, nil
					}
				}
			}
		}
	}
	return or, chain[len(chain)-1]
}

// dominatesOrSame: the value is defined in a block that dominates b (so it has been computed when b runs).
func dominatesOrSame(v ssa.Value, b *ssa.BasicBlock) bool {
	ins, ok := v.(ssa.Instruction)
	if !ok {
		return true // parameters, free variables
	}
	d := ins.Block()
	return d == b || d.Dominates(b)
}

func (in *Interp) constValue(c *ssa.Const) value {
	if c.Value == nil {
		return zero(c.Type())
	}
	t := c.Type()
	if tp, ok := t.(*types.TypeParam); ok {
		_ = tp
		panic("const of type param")
	}
	if b, ok := t.Underlying().(*types.Basic); ok {
		switch {
		case b.Info()&types.IsBoolean != 0:
			return constantBool(c)
		case b.Info()&types.IsString != 0:
			return mkstr(constantString(c))
		case b.Info()&types.IsInteger != 0:
			w, _, _ := intWidth(t)
			return constIntBits(c, w)
		case b.Info()&types.IsFloat != 0:
			if b.Kind() == types.Float32 {
				return float32(c.Float64())
			}
			return c.Float64()
		case b.Info()&types.IsComplex != 0:
			return c.Complex128()
		}
	}
	panic(fmt.Sprintf("constValue: %v", c))
}

// ---------- instruction dispatch ----------

type continuation int

const (
	kNext continuation = iota
	kReturn
	kJump
)

func (in *Interp) visitInstr(fr *frame, instr ssa.Instruction) continuation {
	in.steps++
	if in.steps > in.maxSteps {
		panic(pathAbort{"budget", fmt.Sprintf("step budget %d exceeded in %s", in.maxSteps, fr.fn)})
	}
	switch instr := instr.(type) {
	case *ssa.DebugRef:
	case *ssa.UnOp:
		v := in.unop(instr, fr.get(instr.X))
		fr.set(instr, v)
	case *ssa.BinOp:
		r := in.binop(instr.Op, instr.X.Type(), instr.Y.Type(), fr.get(instr.X), fr.get(instr.Y))
		if t, ok := r.(*Term); ok && t.size >= 40 {
			r = norm(in.canon(t))
		}
		fr.set(instr, r)
	case *ssa.Call:
		fn, args := in.prepareCall(fr, &instr.Call)
		fr.set(instr, in.call(fr, fn, args, instr))
	case *ssa.ChangeInterface:
		fr.set(instr, fr.get(instr.X))
	case *ssa.ChangeType:
		fr.set(instr, fr.get(instr.X))
	case *ssa.Convert:
		r := in.conv(instr.Type(), instr.X.Type(), fr.get(instr.X))
		if t, ok := r.(*Term); ok && t.size >= 40 {
			r = norm(in.canon(t))
		}
		fr.set(instr, r)
	case *ssa.MultiConvert:
		fr.set(instr, in.conv(instr.Type(), instr.X.Type(), fr.get(instr.X)))
	case *ssa.SliceToArrayPointer:
		x := fr.get(instr.X).([]value)
		n := deref(instr.Type()).Underlying().(*types.Array).Len()
		if int64(len(x)) < n {
			in.targetPanicStr("runtime error: cannot convert slice to array pointer: length too short")
		}
		if x == nil && n == 0 {
			fr.set(instr, (*value)(nil))
		} else {
			var cell value = arrayV(x[:n:n])
			fr.set(instr, &cell)
		}
	case *ssa.MakeInterface:
		fr.set(instr, iface{t: instr.X.Type(), v: fr.get(instr.X)})
	case *ssa.Extract:
		fr.set(instr, fr.get(instr.Tuple).(tuple)[instr.Index])
	case *ssa.Slice:
		fr.set(instr, in.sliceOp(instr, fr.get(instr.X), fr.get(instr.Low), fr.get(instr.High), fr.get(instr.Max)))
	case *ssa.Return:
		switch len(instr.Results) {
		case 0:
		case 1:
			fr.result = fr.get(instr.Results[0])
		default:
			res := make(tuple, len(instr.Results))
			for i, r := range instr.Results {
				res[i] = fr.get(r)
			}
			fr.result = res
		}
		fr.block = nil
		return kReturn
	case *ssa.RunDefers:
		fr.runDefers()
	case *ssa.Panic:
		panic(targetPanic{fr.get(instr.X)})
	case *ssa.Send:
		if in.noFork > 0 {
			panic(mergeAbort{})
		}
		in.chanSend(fr.get(instr.Chan).(*chanV), fr.get(instr.X))
	case *ssa.Store:
		in.storeVal(fr.get(instr.Addr), fr.get(instr.Val))
	case *ssa.If:
		succ := 1
		switch c := fr.get(instr.Cond).(type) {
		case bool:
			if c {
				succ = 0
			}
		case *Term:
			switch in.tryMergeIf(fr, instr, c) {
			case 1:
				return kJump
			case 2:
				return kReturn
			}
			if oc, last := in.switchChain(fr, instr, c); last != nil {
				// a run of `case v1, v2, ...:` tests with one common target (that could not be if-converted): decide
				// their disjunction once
				if in.decide(oc, "switch-cases") {
					fr.prevBlock, fr.block = fr.block, fr.block.Succs[0]
				} else {
					fr.prevBlock, fr.block = last, last.Succs[1]
				}
				return kJump
			}
			if in.decide(c, "if") {
				succ = 0
			}
		default:
			panic(fmt.Sprintf("If on %T", c))
		}
		fr.prevBlock, fr.block = fr.block, fr.block.Succs[succ]
		return kJump
	case *ssa.Jump:
		fr.prevBlock, fr.block = fr.block, fr.block.Succs[0]
		return kJump
	case *ssa.Defer:
		if in.noFork > 0 {
			panic(mergeAbort{})
		}
		fn, args := in.prepareCall(fr, &instr.Call)
		defers := &fr.defers
		if instr.DeferStack != nil {
			panic(in.unsupported("defer stack (range-over-func)"))
		}
		*defers = &deferred{fn: fn, args: args, instr: instr, tail: *defers}
	case *ssa.Go:
		if in.noFork > 0 {
			panic(mergeAbort{})
		}
		fn, args := in.prepareCall(fr, &instr.Call)
		in.goStmt(fr, fn, args)
	case *ssa.MakeChan:
		in.uniq++
		fr.set(instr, &chanV{cap: int(in.concInt(fr.get(instr.Size), instr.Size.Type())), id: in.uniq})
	case *ssa.Alloc:
		cell := zero(deref(instr.Type()))
		in.alloc += 8
		if in.noFork > 0 {
			in.registerFresh(&cell)
		}
		fr.set(instr, &cell)
	case *ssa.MakeSlice:
		ln := in.concInt(fr.get(instr.Len), instr.Len.Type())
		cp := in.concInt(fr.get(instr.Cap), instr.Cap.Type())
		if ln < 0 || cp < ln || cp > 1<<26 {
			if ln < 0 || cp < ln {
				in.targetPanicStr("runtime error: makeslice: len out of range")
			}
			panic(pathAbort{"budget", fmt.Sprintf("makeslice of %d elements", cp)})
		}
		tElt := instr.Type().Underlying().(*types.Slice).Elem()
		s := make([]value, cp)
		z := zero(tElt)
		switch z.(type) {
		case structV, arrayV:
			for i := range s {
				s[i] = zero(tElt)
			}
		default:
			for i := range s {
				s[i] = z
			}
		}
		in.alloc += cp * in.sizeof(tElt)
		fr.set(instr, s[:ln])
	case *ssa.MakeMap:
		in.alloc += 48
		fr.set(instr, newOmap(instr.Type().Underlying().(*types.Map).Key()))
	case *ssa.Range:
		fr.set(instr, in.rangeIter(fr.get(instr.X), instr.X.Type()))
	case *ssa.Next:
		fr.set(instr, fr.get(instr.Iter).(iterV).next(in))
	case *ssa.FieldAddr:
		p := fr.get(instr.X).(*value)
		if p == nil {
			in.targetPanicStr("runtime error: invalid memory address or nil pointer dereference")
		}
		fr.set(instr, &(*p).(structV)[instr.Field])
	case *ssa.Field:
		fr.set(instr, fr.get(instr.X).(structV)[instr.Field])
	case *ssa.IndexAddr:
		fr.set(instr, in.indexAddr(instr, fr.get(instr.X), fr.get(instr.Index)))
	case *ssa.Index:
		fr.set(instr, in.indexOp(instr, fr.get(instr.X), fr.get(instr.Index)))
	case *ssa.Lookup:
		fr.set(instr, in.lookup(instr, fr.get(instr.X), fr.get(instr.Index)))
	case *ssa.MapUpdate:
		m := fr.get(instr.Map).(*omap)
		if m == nil {
			in.targetPanicStr("assignment to entry in nil map")
		}
		if in.noFork > 0 {
			panic(mergeAbort{})
		}
		in.mapInsert(m, fr.get(instr.Key), copyVal(fr.get(instr.Value)))
	case *ssa.TypeAssert:
		fr.set(instr, in.typeAssert(instr, fr.get(instr.X).(iface)))
	case *ssa.MakeClosure:
		bindings := make([]value, len(instr.Bindings))
		for i, b := range instr.Bindings {
			bindings[i] = fr.get(b)
		}
		fr.set(instr, &closure{instr.Fn.(*ssa.Function), bindings})
	case *ssa.Phi:
		panic("unreachable phi")
	case *ssa.Select:
		fr.set(instr, in.selectStmt(fr, instr))
	default:
		panic(in.unsupported("instruction %T", instr))
	}
	return kNext
}

func (in *Interp) sizeof(t types.Type) int64 {
	switch u := t.Underlying().(type) {
	case *types.Basic:
		switch u.Kind() {
		case types.Bool, types.Int8, types.Uint8:
			return 1
		case types.Int16, types.Uint16:
			return 2
		case types.Int32, types.Uint32, types.Float32:
			return 4
		case types.String:
			return 16
		}
		return 8
	case *types.Struct:
		var n int64
		for i := 0; i < u.NumFields(); i++ {
			n += in.sizeof(u.Field(i).Type())
		}
		return n
	case *types.Array:
		return u.Len() * in.sizeof(u.Elem())
	case *types.Slice:
		return 24
	case *types.Interface:
		return 16
	}
	return 8
}

// concInt returns a concrete signed integer for v, forking over feasible values if symbolic.
func (in *Interp) concInt(v value, t types.Type) int64 {
	if v == nil {
		return 0
	}
	w, signed, ok := intWidth(t)
	if !ok {
		panic(fmt.Sprintf("concInt on %v", t))
	}
	switch v := v.(type) {
	case uint64:
		if signed {
			return sext(v, w)
		}
		return int64(v)
	case *Term:
		c := in.concretize(v, "shape")
		if signed {
			return sext(c, w)
		}
		return int64(c)
	}
	panic(fmt.Sprintf("concInt %T", v))
}

func (in *Interp) sliceOp(instr *ssa.Slice, x, lo, hi, max value) value {
	var l, h, m int64
	if _, isStr := x.(str); !isStr && lo != nil {
		l = in.concInt(lo, instr.Low.Type())
	}
	switch x := x.(type) {
	case str:
		if r, ok := in.symStrSlice(instr, x, lo, hi); ok {
			return r
		}
		if lo != nil {
			l = in.concInt(lo, instr.Low.Type())
		}
		n := int64(len(x.s))
		h = n
		if hi != nil {
			h = in.concInt(hi, instr.High.Type())
		}
		if l < 0 || h < l || h > n {
			in.targetPanicStr(fmt.Sprintf("runtime error: slice bounds out of range [%d:%d] with length %d", l, h, n))
		}
		return x.slice(int(l), int(h))
	case []value:
		n, c := int64(len(x)), int64(cap(x))
		h = n
		if hi != nil {
			h = in.concInt(hi, instr.High.Type())
		}
		m = c
		if max != nil {
			m = in.concInt(max, instr.Max.Type())
		}
		if l < 0 || h < l || m < h || m > c {
			in.targetPanicStr(fmt.Sprintf("runtime error: slice bounds out of range [%d:%d:%d] with capacity %d", l, h, m, c))
		}
		if x == nil {
			return []value(nil)
		}
		return x[l:h:m]
	case *value: // *array
		if x == nil {
			in.targetPanicStr("runtime error: invalid memory address or nil pointer dereference")
		}
		a := (*x).(arrayV)
		n := int64(len(a))
		h = n
		if hi != nil {
			h = in.concInt(hi, instr.High.Type())
		}
		m = n
		if max != nil {
			m = in.concInt(max, instr.Max.Type())
		}
		if l < 0 || h < l || m < h || m > n {
			in.targetPanicStr(fmt.Sprintf("runtime error: slice bounds out of range [%d:%d:%d] with capacity %d", l, h, m, n))
		}
		return []value(a)[l:h:m]
	}
	panic(in.unsupported("slice of %T", x))
}

const maxSymIndexSpan = 2048

// boundsCheck returns (concrete index, symbolic index (nil if concrete)).
func (in *Interp) boundsCheck(idx value, it types.Type, n int) (int, *Term) {
	switch i := idx.(type) {
	case uint64:
		w, signed, _ := intWidth(it)
		var iv int64
		if signed {
			iv = sext(i, w)
		} else {
			iv = int64(i)
			if iv < 0 {
				iv = 1 << 62
			}
		}
		if iv < 0 || iv >= int64(n) {
			in.targetPanicStr(fmt.Sprintf("runtime error: index out of range [%d] with length %d", iv, n))
		}
		return int(iv), nil
	case *Term:
		w, signed, _ := intWidth(it)
		var t64 *Term
		if signed {
			t64 = in.ts.SExt(i, 64)
		} else {
			t64 = in.ts.ZExt(i, 64)
		}
		_ = w
		inb := in.ts.Ult(t64, in.ts.Const(64, uint64(n)))
		if !in.decide(inb, "bounds") {
			in.targetPanicStr(fmt.Sprintf("runtime error: index out of range [sym] with length %d", n))
		}
		if t64.lo == t64.hi {
			return int(t64.lo), nil
		}
		return 0, t64
	}
	panic(fmt.Sprintf("boundsCheck %T", idx))
}

func scalarElem(t types.Type) (uint8, bool) {
	if w, _, ok := intWidth(t); ok {
		return w, true
	}
	if b, ok := t.Underlying().(*types.Basic); ok && b.Info()&types.IsBoolean != 0 {
		return 0, true
	}
	return 0, false
}

func (in *Interp) symIndex(base []value, t64 *Term, elemT types.Type) (int, *symPtr) {
	// restrict to the index range known for the term
	lo, hi := t64.lo, t64.hi
	if hi >= uint64(len(base)) {
		hi = uint64(len(base)) - 1
	}
	w, ok := scalarElem(elemT)
	smallSup := t64.sup != nil && t64.sup != multiSup && t64.sup.w <= 8
	if !ok || (hi-lo+1 > maxSymIndexSpan && !smallSup) {
		c := in.concretize(t64, "index")
		return int(c), nil
	}
	if smallSup {
		return 0, &symPtr{base: base, idx: t64, w: w}
	}
	if in.noFork == 0 {
		for i := lo; i <= hi; i++ {
			if _, isT := base[i].(*Term); isT {
				c := in.concretize(t64, "index")
				return int(c), nil
			}
		}
	}
	idx := t64
	if lo > 0 {
		idx = in.ts.Bin(OpSub, t64, in.ts.Const(64, lo))
	}
	return 0, &symPtr{base: base[lo : hi+1], idx: idx, w: w}
}

func (in *Interp) indexAddr(instr *ssa.IndexAddr, x, idx value) value {
	var base []value
	var elemT types.Type
	switch x := x.(type) {
	case []value:
		base = x
		elemT = instr.X.Type().Underlying().(*types.Slice).Elem()
	case *value:
		if x == nil {
			in.targetPanicStr("runtime error: invalid memory address or nil pointer dereference")
		}
		base = []value((*x).(arrayV))
		elemT = deref(instr.X.Type()).Underlying().(*types.Array).Elem()
	default:
		panic(in.unsupported("IndexAddr on %T", x))
	}
	ci, st := in.boundsCheck(idx, instr.Index.Type(), len(base))
	if st == nil {
		return &base[ci]
	}
	ci, sp := in.symIndex(base, st, elemT)
	if sp == nil {
		return &base[ci]
	}
	return sp
}

func (in *Interp) indexOp(instr *ssa.Index, x, idx value) value {
	switch x := x.(type) {
	case arrayV:
		ci, st := in.boundsCheck(idx, instr.Index.Type(), len(x))
		if st == nil {
			return copyVal(x[ci])
		}
		ci, sp := in.symIndex([]value(x), st, instr.Type())
		if sp == nil {
			return copyVal(x[ci])
		}
		return in.selectFrom(sp.base, sp.idx, sp.w)
	case str:
		ci, st := in.boundsCheck(idx, instr.Index.Type(), len(x.s))
		if st == nil {
			return x.at(ci)
		}
		return in.symSelect(func(i int) value { return x.at(i) }, len(x.s), st, 8)
	}
	panic(in.unsupported("Index on %T", x))
}

func (in *Interp) typeAssert(instr *ssa.TypeAssert, itf iface) value {
	var v value
	err := ""
	if itf.t == nil {
		err = fmt.Sprintf("interface conversion: interface is nil, not %s", instr.AssertedType)
	} else if idst, ok := instr.AssertedType.Underlying().(*types.Interface); ok {
		v = itf
		if !in.implements(itf.t, idst) {
			err = fmt.Sprintf("interface conversion: %v is not %v", itf.t, idst)
		}
	} else if types.Identical(itf.t, instr.AssertedType) {
		v = itf.v
	} else {
		err = fmt.Sprintf("interface conversion: interface is %s, not %s", itf.t, instr.AssertedType)
	}
	if err != "" {
		if !instr.CommaOk {
			in.targetPanicStr(err)
		}
		return tuple{zero(instr.AssertedType), false}
	}
	if instr.CommaOk {
		return tuple{v, true}
	}
	return v
}

type implKey struct {
	t types.Type
	i *types.Interface
}

var implCache sync.Map

func (in *Interp) implements(t types.Type, i *types.Interface) bool {
	k := implKey{t, i}
	if v, ok := implCache.Load(k); ok {
		return v.(bool)
	}
	in.P.methMu.Lock()
	r := types.Implements(t, i)
	in.P.methMu.Unlock()
	implCache.Store(k, r)
	return r
}

// ---------- calls ----------

func (in *Interp) prepareCall(fr *frame, call *ssa.CallCommon) (fn value, args []value) {
	v := fr.get(call.Value)
	if call.Method == nil {
		fn = v
	} else {
		recv := v.(iface)
		if recv.t == nil {
			in.targetPanicStr("runtime error: invalid memory address or nil pointer dereference (method on nil interface)")
		}
		if nt, ok := recv.v.(*native); ok && nt != nil {
			// natively backed object: dispatch by name
			fn = &nativeMethod{recv: nt, name: call.Method.Name()}
			for _, arg := range call.Args {
				args = append(args, fr.get(arg))
			}
			return
		}
		f := in.P.lookupMethod(recv.t, call.Method)
		if f == nil {
			panic(fmt.Sprintf("method set for dynamic type %v does not contain %s", recv.t, call.Method))
		}
		fn = f
		args = append(args, recv.v)
	}
	for _, arg := range call.Args {
		args = append(args, fr.get(arg))
	}
	return
}

type nativeMethod struct {
	recv *native
	name string
}

func (in *Interp) call(caller *frame, fn value, args []value, site ssa.Instruction) value {
	switch fn := fn.(type) {
	case *ssa.Function:
		if fn == nil {
			in.targetPanicStr("runtime error: invalid memory address or nil pointer dereference (nil func)")
		}
		return in.callSSA(caller, fn, args, nil)
	case *closure:
		if fn == nil {
			in.targetPanicStr("runtime error: invalid memory address or nil pointer dereference (nil func)")
		}
		return in.callSSA(caller, fn.Fn, args, fn.Env)
	case *ssa.Builtin:
		return in.callBuiltin(caller, fn, args, site)
	case *nativeMethod:
		return in.callNativeMethod(caller, fn, args)
	}
	panic(fmt.Sprintf("cannot call %T", fn))
}

const maxDepth = 400

func (in *Interp) callSSA(caller *frame, fn *ssa.Function, args []value, env []value) value {
	if fn.Synthetic == "package initializer" && fn != in.allowInit {
		in.ensureInit(fn.Pkg)
		return nil
	}
	fi := in.P.info(fn)
	in.fnCount[fn]++
	fr := &frame{in: in, caller: caller, fn: fn, fi: fi}
	if fi.ext == nil {
		if o := fn.Origin(); o != nil && o.Pkg != nil && o.Pkg.Pkg.Path() == "unique" && o.Name() == "Make" {
			fi.ext = extUniqueMake
		}
	}
	if fi.ext != nil && in.bypassExt != fn {
		save := in.curFrame
		in.curFrame = fr
		r := fi.ext(in, fr, args)
		in.curFrame = save
		return r
	}
	if fn.Blocks == nil {
		// the function's package may not have been built (dependency): try
		if fn.Pkg != nil {
			fn.Pkg.Build()
		}
		if fn.Blocks == nil {
			panic(in.unsupported("no code for function %s", fi.name))
		}
	}
	if fn.Pkg != nil && !in.inited[fn.Pkg] {
		in.ensureInit(fn.Pkg)
	}
	if fi.pure == 0 {
		in.classifyPure(fn, fi)
	}
	if fi.pure == 1 && in.noFork == 0 && !in.inInit {
		if hasSym(args) {
			if r, ok := in.mergeCall(caller, fn, fi, args); ok {
				return r
			}
		}
	}
	if caller != nil {
		fr.depth = caller.depth + 1
	}
	if fr.depth > maxDepth {
		panic(pathAbort{"budget", "call depth exceeded in " + fi.name})
	}
	fr.env = make([]value, fi.n)
	n := 0
	for range fn.Params {
		fr.env[n] = args[n]
		n++
	}
	for i := range fn.FreeVars {
		fr.env[n] = env[i]
		n++
	}
	fr.block = fn.Blocks[0]
	save := in.curFrame
	in.curFrame = fr
	for fr.block != nil {
		in.runFrame(fr)
	}
	in.curFrame = save
	return fr.result
}

func hasSym(args []value) bool {
	for _, a := range args {
		switch a := a.(type) {
		case *Term:
			return true
		case str:
			if a.sym != nil {
				return true
			}
		}
	}
	return false
}

func (in *Interp) runFrame(fr *frame) {
	defer func() {
		if fr.block == nil {
			return // normal return
		}
		r := recover()
		if pa, ok := r.(pathAbort); ok {
			panic(pa)
		}
		if _, ok := r.(mergeAbort); ok {
			panic(r)
		}
		if _, ok := r.(targetPanic); !ok {
			// interpreter bug or Go runtime error inside the interpreter
			where := fr.fn.String()
			if fr.curInstr != nil {
				where += ": " + fr.curInstr.String() + " @ " + fr.in.P.prog.Fset.Position(fr.curInstr.Pos()).String()
			}
			stack := ""
			for f := fr; f != nil; f = f.caller {
				stack += " <- " + f.fn.String()
			}
			if os.Getenv("SYMGO_GOSTACK") != "" {
				stack += "\n" + string(debug.Stack())
			}
			panic(pathAbort{"unsupported", fmt.Sprintf("interpreter fault: %v in %s\n  target stack:%s", r, where, stack)})
		}
		fr.panicking = true
		fr.panic = r
		in.curFrame = fr
		fr.runDefers()
		fr.block = fr.fn.Recover
		if fr.block == nil {
			// recovered, function without named results: return zero values
			fr.result = zero(fr.fn.Signature.Results())
			if fr.fn.Signature.Results().Len() == 0 {
				fr.result = nil
			}
		}
	}()
	for {
		bi := fr.block.Index
		fnp := fr.fi.firstNP[bi]
		instrs := fr.block.Instrs
		if fr.skipPhis {
			fr.skipPhis = false
		} else if fnp > 0 {
			predIndex := slices.Index(fr.block.Preds, fr.prevBlock)
			var tmp [8]value
			phitemps := tmp[:0]
			for _, phi := range instrs[:fnp] {
				phitemps = append(phitemps, fr.get(phi.(*ssa.Phi).Edges[predIndex]))
			}
			for i, phi := range instrs[:fnp] {
				fr.set(phi.(*ssa.Phi), phitemps[i])
			}
		}
		for _, instr := range instrs[fnp:] {
			fr.curInstr = instr
			if in.visitInstr(fr, instr) == kReturn {
				return
			}
		}
	}
}

func (fr *frame) runDefer(d *deferred) {
	var ok bool
	defer func() {
		if !ok {
			r := recover()
			if pa, isPA := r.(pathAbort); isPA {
				panic(pa)
			}
			if _, isTP := r.(targetPanic); !isTP {
				panic(r)
			}
			fr.panicking = true
			fr.panic = r
		}
	}()
	fr.in.call(fr, d.fn, d.args, d.instr)
	ok = true
}

func (fr *frame) runDefers() {
	for d := fr.defers; d != nil; d = d.tail {
		fr.runDefer(d)
	}
	fr.defers = nil
	if fr.panicking {
		panic(fr.panic)
	}
}

func (in *Interp) doRecover(caller *frame) value {
	if caller != nil && !caller.panicking && caller.caller != nil && caller.caller.panicking {
		caller.caller.panicking = false
		p := caller.caller.panic
		caller.caller.panic = nil
		switch p := p.(type) {
		case targetPanic:
			if it, ok := p.v.(iface); ok {
				return it
			}
			return iface{}
		default:
			panic(fmt.Sprintf("unexpected panic type %T in recover()", p))
		}
	}
	return iface{}
}

// ---------- maps ----------

// mapKey returns a comparable Go key for a fully concrete key value, ok=false if the key contains terms.
func mapKey(v value) (interface{}, bool) {
	switch v := v.(type) {
	case uint64, bool, float64, float32:
		return v, true
	case str:
		if !v.concrete() {
			return nil, false
		}
		return v.s, true
	case *Term:
		return nil, false
	case *value, *omap, *chanV:
		return v, true
	case iface:
		if v.t == nil {
			return iface{}, true
		}
		k, ok := mapKey(v.v)
		if !ok {
			return nil, false
		}
		return [2]interface{}{v.t.String(), k}, true
	case structV:
		var sb strings.Builder
		for _, f := range v {
			k, ok := mapKey(f)
			if !ok {
				return nil, false
			}
			fmt.Fprintf(&sb, "%T:%v|", k, k)
		}
		return "S" + sb.String(), true
	case arrayV:
		var sb strings.Builder
		for _, f := range v {
			k, ok := mapKey(f)
			if !ok {
				return nil, false
			}
			fmt.Fprintf(&sb, "%T:%v|", k, k)
		}
		return "A" + sb.String(), true
	}
	panic(fmt.Sprintf("mapKey: %T", v))
}

// mapFind returns the position of key in m or -1; symbolic keys fork on equality.
func (in *Interp) mapFind(m *omap, key value) int {
	if m == nil {
		return -1
	}
	k, ok := mapKey(key)
	allConcrete := true
	if ok {
		if p, found := m.idx[k]; found && !m.dead[p] {
			return p
		}
		// entries with symbolic keys are not in idx
		for i := range m.keys {
			if m.dead[i] {
				continue
			}
			if _, c := mapKey(m.keys[i]); !c {
				allConcrete = false
				break
			}
		}
		if allConcrete {
			return -1
		}
	}
	for i := range m.keys {
		if m.dead[i] {
			continue
		}
		e := in.equals(m.keyT, m.keys[i], key)
		switch e := e.(type) {
		case bool:
			if e {
				return i
			}
		case *Term:
			if in.decide(e, "mapkey") {
				return i
			}
		}
	}
	return -1
}

func (in *Interp) mapInsert(m *omap, key, val value) {
	p := in.mapFind(m, key)
	if p >= 0 {
		old := m.vals[p]
		if in.journaling {
			in.journal = append(in.journal, undoEntry{fn: func() { m.vals[p] = old }})
		}
		m.vals[p] = val
		return
	}
	k, ok := mapKey(key)
	pos := len(m.keys)
	m.keys = append(m.keys, copyVal(key))
	m.vals = append(m.vals, val)
	m.dead = append(m.dead, false)
	m.n++
	var hadOld bool
	var oldPos int
	if ok {
		oldPos, hadOld = m.idx[k]
		m.idx[k] = pos
	}
	if in.journaling {
		in.journal = append(in.journal, undoEntry{fn: func() {
			m.keys = m.keys[:pos]
			m.vals = m.vals[:pos]
			m.dead = m.dead[:pos]
			m.n--
			if ok {
				if hadOld {
					m.idx[k] = oldPos
				} else {
					delete(m.idx, k)
				}
			}
		}})
	}
}

func (in *Interp) mapDelete(m *omap, key value) {
	p := in.mapFind(m, key)
	if p < 0 {
		return
	}
	m.dead[p] = true
	m.n--
	if in.journaling {
		in.journal = append(in.journal, undoEntry{fn: func() { m.dead[p] = false; m.n++ }})
	}
}

func (in *Interp) lookup(instr *ssa.Lookup, x, idx value) value {
	switch x := x.(type) {
	case *omap:
		vt := instr.X.Type().Underlying().(*types.Map).Elem()
		p := in.mapFind(x, idx)
		var v value
		ok := p >= 0
		if ok {
			v = copyVal(x.vals[p])
		} else {
			v = zero(vt)
		}
		if instr.CommaOk {
			return tuple{v, ok}
		}
		return v
	case str:
		ci, st := in.boundsCheck(idx, instr.Index.Type(), len(x.s))
		if st == nil {
			return x.at(ci)
		}
		c := in.concretize(st, "index")
		return x.at(int(c))
	}
	panic(in.unsupported("lookup on %T", x))
}

// ---------- range ----------

type iterV interface {
	next(in *Interp) tuple
}

type strIter struct {
	s   str
	pos int
}

func (it *strIter) next(in *Interp) tuple {
	if it.pos >= len(it.s.s) {
		return tuple{false, uint64(0), uint64(0)}
	}
	// decode a rune; symbolic bytes: fork on ASCII-ness, non-ASCII symbolic unsupported
	b := it.s.at(it.pos)
	switch b := b.(type) {
	case uint64:
		if b < 0x80 {
			p := it.pos
			it.pos++
			return tuple{true, uint64(p), b}
		}
		// concrete multi-byte: need following bytes concrete
		end := it.pos + 1
		for end < len(it.s.s) && end < it.pos+4 {
			end++
		}
		sub := it.s.slice(it.pos, end)
		if !sub.concrete() {
			panic(in.unsupported("range over string with symbolic continuation bytes"))
		}
		r, sz := decodeRune(sub.s)
		p := it.pos
		it.pos += sz
		return tuple{true, uint64(p), uint64(uint32(r))}
	case *Term:
		ascii := in.ts.Ult(b, in.ts.Const(8, 0x80))
		if in.decide(ascii, "rune-ascii") {
			p := it.pos
			it.pos++
			return tuple{true, uint64(p), norm(in.ts.ZExt(b, 32))}
		}
		panic(in.unsupported("range over string with symbolic non-ASCII byte"))
	}
	panic("strIter")
}

type mapIter struct {
	m   *omap
	pos int
}

func (it *mapIter) next(in *Interp) tuple {
	for it.m != nil && it.pos < len(it.m.keys) {
		p := it.pos
		it.pos++
		if it.m.dead[p] {
			continue
		}
		return tuple{true, copyVal(it.m.keys[p]), copyVal(it.m.vals[p])}
	}
	return tuple{false, nil, nil}
}

func (in *Interp) rangeIter(x value, t types.Type) iterV {
	switch x := x.(type) {
	case *omap:
		return &mapIter{m: x}
	case str:
		return &strIter{s: x}
	}
	panic(in.unsupported("range over %T", x))
}

func constantBool(c *ssa.Const) bool     { return c.Value.String() == "true" }
func constantString(c *ssa.Const) string {
	return constStringVal(c)
}

var _ = token.ADD

func (in *Interp) registerFresh(p *value) {
	if in.specFresh == nil {
		in.specFresh = map[*value]bool{}
	}
	in.specFresh[p] = true
	switch v := (*p).(type) {
	case structV:
		for i := range v {
			in.registerFresh(&v[i])
		}
	case arrayV:
		if len(v) <= 64 {
			for i := range v {
				in.registerFresh(&v[i])
			}
		}
	}
}

// symStrSlice handles s[lo:hi] on strings when lo/hi are symbolic but hi-lo is a constant:
// the result has concrete length and bytes selected by the symbolic offset.
func (in *Interp) symStrSlice(instr *ssa.Slice, x str, lo, hi value) (value, bool) {
	lt, lok := lo.(*Term)
	ht, hok := hi.(*Term)
	if !lok || !hok {
		return nil, false
	}
	ts := in.ts
	lw, lsigned, _ := intWidth(instr.Low.Type())
	_ = lw
	ext := func(t *Term, signed bool) *Term {
		if signed {
			return ts.SExt(t, 64)
		}
		return ts.ZExt(t, 64)
	}
	_, hsigned, _ := intWidth(instr.High.Type())
	l64, h64 := ext(lt, lsigned), ext(ht, hsigned)
	d := ts.Bin(OpSub, h64, l64)
	var dk uint64
	if d.IsConst() {
		dk = d.k
	} else if v := d.sup; v != nil && v != multiSup && v.w <= 8 && v.w > 0 {
		dom := in.domOf(v)
		first := true
		for val := uint64(0); val <= mask(v.w); val++ {
			if dom[val>>6]&(1<<(val&63)) == 0 {
				continue
			}
			x := ts.EvalWith(d, v, val)
			if first {
				dk, first = x, false
			} else if x != dk {
				return nil, false
			}
		}
		if first {
			return nil, false
		}
	} else {
		return nil, false
	}
	if dk > 64 {
		return nil, false
	}
	L := int(dk)
	n := len(x.s)
	// bounds: hi <= len (unsigned) and lo <= hi follows from the constant non-negative difference unless wrap
	inb := ts.And(ts.Ule(h64, ts.Const(64, uint64(n))), ts.Ule(l64, h64))
	if !in.decide(inb, "slicebounds") {
		in.targetPanicStr("runtime error: slice bounds out of range (symbolic)")
	}
	bs := make([]value, L)
	for j := 0; j < L; j++ {
		jj := j
		bs[j] = in.symSelect(func(i int) value {
			if i+jj >= n {
				return uint64(0)
			}
			return x.at(i + jj)
		}, n, l64, 8)
	}
	return strFromBytes(bs), true
}

// unique.Make[T]: canonical handle = struct{value *T}
func extUniqueMake(in *Interp, fr *frame, args []value) value {
	k, ok := mapKey(args[0])
	if !ok {
		panic(in.unsupported("unique.Make of symbolic value"))
	}
	key := fmt.Sprintf("%T:%v", k, k)
	if in.uniqueTab == nil {
		in.uniqueTab = map[string]*value{}
	}
	p, ok := in.uniqueTab[key]
	if !ok {
		cell := copyVal(args[0])
		p = &cell
		in.uniqueTab[key] = p
	}
	return structV{p}
}
