package main

// Boxed values of the symbolic interpreter.
//
//   bool / *Term(w==0)              booleans (concrete / symbolic)
//   uint64 / *Term(w>0)             all integer kinds, zero-extended bits masked to the type's width
//   float64, float32                floats (concrete only)
//   str                             strings: concrete length, bytes concrete or terms
//   *value                          pointers
//   *symPtr                         pointer &base[idx] with symbolic idx
//   []value                         slices
//   structV, arrayV                 aggregates (copied on load/store)
//   iface                           interfaces
//   *omap, *chanV, tuple
//   *ssa.Function, *ssa.Builtin, *closure
//   *native                         opaque natively-backed objects (stubs)

import (
	"fmt"
	"go/types"
	"strings"

	"golang.org/x/tools/go/ssa"
)

type value interface{}

type str struct {
	s   string
	sym []*Term // nil if fully concrete; else len(sym)==len(s), non-nil entries override
}

type structV []value
type arrayV []value
type tuple []value

type iface struct {
	t types.Type
	v value
}

type closure struct {
	Fn  *ssa.Function
	Env []value
}

type symPtr struct {
	base []value
	idx  *Term // unsigned index, in range (asserted before creation)
	w    uint8 // element width (0 = bool)
}

type chanV struct {
	buf    []value
	cap    int
	closed bool
	id     int
	sent   int64 // unbuffered rendezvous: values put / values taken
	recvd  int64
}

type bad struct{}

// ordered map
type omap struct {
	keyT types.Type
	idx  map[interface{}]int // comparable key -> position in keys
	keys []value
	vals []value
	dead []bool
	n    int
}

func newOmap(kt types.Type) *omap {
	return &omap{keyT: kt, idx: map[interface{}]int{}}
}

func mkstr(s string) str { return str{s: s} }

func (s str) Len() int { return len(s.s) }

func (s str) concrete() bool {
	if s.sym == nil {
		return true
	}
	for _, t := range s.sym {
		if t != nil {
			return false
		}
	}
	return true
}

// at returns the byte at i as value (uint64 or *Term).
func (s str) at(i int) value {
	if s.sym != nil && s.sym[i] != nil {
		return s.sym[i]
	}
	return uint64(s.s[i])
}

func (s str) slice(lo, hi int) str {
	r := str{s: s.s[lo:hi]}
	if s.sym != nil {
		r.sym = s.sym[lo:hi]
		if r.concrete() {
			r.sym = nil
		}
	}
	return r
}

func strFromBytes(bs []value) str {
	b := make([]byte, len(bs))
	var sym []*Term
	for i, v := range bs {
		switch v := v.(type) {
		case uint64:
			b[i] = byte(v)
		case *Term:
			if sym == nil {
				sym = make([]*Term, len(bs))
			}
			sym[i] = v
			b[i] = '?'
		default:
			panic(fmt.Sprintf("strFromBytes: %T", v))
		}
	}
	return str{s: string(b), sym: sym}
}

func (s str) bytes() []value {
	r := make([]value, len(s.s))
	for i := range r {
		r[i] = s.at(i)
	}
	return r
}

func strConcat(a, b str) str {
	r := str{s: a.s + b.s}
	if a.sym != nil || b.sym != nil {
		r.sym = make([]*Term, len(r.s))
		if a.sym != nil {
			copy(r.sym, a.sym)
		}
		if b.sym != nil {
			copy(r.sym[len(a.s):], b.sym)
		}
	}
	return r
}

func (s str) String() string {
	if s.sym == nil {
		return s.s
	}
	var sb strings.Builder
	for i := range s.s {
		if s.sym[i] != nil {
			fmt.Fprintf(&sb, "{%s}", s.sym[i])
		} else {
			sb.WriteByte(s.s[i])
		}
	}
	return sb.String()
}

// ---- type helpers ----

func intWidth(t types.Type) (w uint8, signed bool, ok bool) {
	b, isb := t.Underlying().(*types.Basic)
	if !isb {
		return 0, false, false
	}
	switch b.Kind() {
	case types.Int8:
		return 8, true, true
	case types.Int16:
		return 16, true, true
	case types.Int32:
		return 32, true, true
	case types.Int64, types.Int, types.UntypedInt:
		return 64, true, true
	case types.Uint8:
		return 8, false, true
	case types.Uint16:
		return 16, false, true
	case types.Uint32:
		return 32, false, true
	case types.Uint64, types.Uint, types.Uintptr:
		return 64, false, true
	case types.UntypedRune:
		return 32, true, true
	}
	return 0, false, false
}

func isString(t types.Type) bool {
	b, ok := t.Underlying().(*types.Basic)
	return ok && b.Info()&types.IsString != 0
}

func deref(t types.Type) types.Type {
	if p, ok := t.Underlying().(*types.Pointer); ok {
		return p.Elem()
	}
	panic(fmt.Sprintf("deref of non-pointer %v", t))
}

// zero returns a new zero value of type t.
func zero(t types.Type) value {
	switch t := t.(type) {
	case *types.Basic:
		if t.Kind() == types.UntypedNil {
			panic("untyped nil has no zero value")
		}
		if t.Info()&types.IsUntyped != 0 {
			t = types.Default(t).(*types.Basic)
		}
		switch t.Kind() {
		case types.Bool:
			return false
		case types.Float32:
			return float32(0)
		case types.Float64:
			return float64(0)
		case types.Complex64:
			return complex64(0)
		case types.Complex128:
			return complex128(0)
		case types.String:
			return str{}
		case types.UnsafePointer:
			return (*value)(nil)
		default:
			return uint64(0)
		}
	case *types.Pointer:
		return (*value)(nil)
	case *types.Array:
		a := make(arrayV, t.Len())
		for i := range a {
			a[i] = zero(t.Elem())
		}
		return a
	case *types.Named:
		return zero(t.Underlying())
	case *types.Alias:
		return zero(types.Unalias(t))
	case *types.Interface:
		return iface{}
	case *types.Slice:
		return []value(nil)
	case *types.Struct:
		s := make(structV, t.NumFields())
		for i := range s {
			s[i] = zero(t.Field(i).Type())
		}
		return s
	case *types.Tuple:
		if t.Len() == 1 {
			return zero(t.At(0).Type())
		}
		s := make(tuple, t.Len())
		for i := range s {
			s[i] = zero(t.At(i).Type())
		}
		return s
	case *types.Chan:
		return (*chanV)(nil)
	case *types.Map:
		return (*omap)(nil)
	case *types.Signature:
		return (*ssa.Function)(nil)
	}
	panic(fmt.Sprint("zero: unexpected ", t))
}

// copyVal returns a copy of aggregates (structs, arrays); other values are immutable or references.
func copyVal(v value) value {
	switch v := v.(type) {
	case structV:
		a := make(structV, len(v))
		for i, x := range v {
			a[i] = copyVal(x)
		}
		return a
	case arrayV:
		a := make(arrayV, len(v))
		for i, x := range v {
			a[i] = copyVal(x)
		}
		return a
	case tuple:
		return v
	}
	return v
}

func isNilValue(v value) bool {
	switch v := v.(type) {
	case *value:
		return v == nil
	case []value:
		return v == nil
	case *omap:
		return v == nil
	case *chanV:
		return v == nil
	case *ssa.Function:
		return v == nil
	case *closure:
		return v == nil
	case *ssa.Builtin:
		return v == nil
	case iface:
		return v.t == nil
	case *symPtr:
		return false
	case *native:
		return v == nil
	}
	return false
}

type native struct {
	kind string
	obj  interface{}
}

func toDebug(v value) string {
	switch v := v.(type) {
	case str:
		return fmt.Sprintf("%q", v.String())
	case *Term:
		return v.String()
	case structV:
		var sb strings.Builder
		sb.WriteString("{")
		for i, x := range v {
			if i > 0 {
				sb.WriteString(", ")
			}
			sb.WriteString(toDebug(x))
		}
		sb.WriteString("}")
		return sb.String()
	case arrayV:
		return toDebug([]value(v))
	case []value:
		var sb strings.Builder
		sb.WriteString("[")
		for i, x := range v {
			if i > 0 {
				sb.WriteString(" ")
			}
			if i > 40 {
				sb.WriteString("…")
				break
			}
			sb.WriteString(toDebug(x))
		}
		sb.WriteString("]")
		return sb.String()
	case iface:
		if v.t == nil {
			return "nil"
		}
		return fmt.Sprintf("%v(%s)", v.t, toDebug(v.v))
	case *value:
		if v == nil {
			return "nil"
		}
		return "&" + toDebug(*v)
	case tuple:
		return "tuple" + toDebug([]value(v))
	}
	return fmt.Sprint(v)
}
