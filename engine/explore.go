package main

// Decision-prefix exploration: a path is the sequence of decisions taken at symbolic
// branches and shape concretisations. Workers re-execute the harness from the start.

import (
	"fmt"
	"os"
	"runtime/debug"
	"sort"
	"strings"
	"sync"
	"time"

	"golang.org/x/tools/go/ssa"
)

type Decision struct {
	Kind byte   // 'b' branch, 'c' concretise, 'h' choice
	Val  uint64 // side (0/1) or value
	Tag  string
}

type WorkItem struct {
	Prefix []Decision
	Model  map[string]uint64
}

type Violation struct {
	Harness  string            `json:"harness"`
	Assert   string            `json:"assert"`
	Kind     string            `json:"kind"` // assert | panic | budget
	Msg      string            `json:"msg,omitempty"`
	Inputs   map[string]uint64 `json:"inputs"`
	Finding  string            `json:"finding,omitempty"` // known-finding id if inside a listed region
	Replayed string            `json:"replayed,omitempty"`
	Path     string            `json:"path,omitempty"`
}

type PathResult struct {
	status      string // ok | unsupported | budget | infeasible
	msg         string
	decisions   int
	asserts     int
	assertIDs   map[string]int
	reach       map[string]int
	violations  []Violation
	unknown     int
	steps       int64
	alloc       int64
	observations []string
	model       map[string]uint64
	trace       []Decision
	drift       int
	inputs      []string
	obsRecs     []obsRec
}

type RunConfig struct {
	Harness      string
	MaxSteps     int64
	MaxPaths     int
	SolverKind   string
	TimeoutMs    int
	Workers      int
	Concrete     map[string]uint64 // if non-nil: concrete mode (all inputs taken from here)
	Deadline     time.Time
	KnownOpen    map[string]bool // finding ids listed as open
	Verbose      bool
	StopOnViol   bool
}

type WitnessRec struct {
	Model map[string]uint64
	Obs   []string
}

type HarnessStats struct {
	Name         string           `json:"name"`
	Paths        int              `json:"paths"`
	Pruned       int              `json:"pruned_infeasible"`
	Unsupported  int              `json:"unsupported"`
	OverBudget   int              `json:"over_budget"`
	Unknown      int              `json:"solver_unknown"`
	Decisions    int              `json:"decisions"`
	Asserts      int              `json:"assert_obligations"`
	MaxSteps     int64            `json:"max_steps"`
	MaxAlloc     int64            `json:"max_alloc"`
	TotalSteps   int64            `json:"total_steps"`
	Exhaustive   bool             `json:"exhaustive"`
	Reach        map[string]int   `json:"reach"`
	AssertIDs    map[string]int   `json:"assert_ids"`
	Violations   []Violation      `json:"violations,omitempty"`
	UnsupportedMsgs map[string]int `json:"unsupported_msgs,omitempty"`
	Samples      []map[string]interface{} `json:"-"`
	Sat, Unsat   int
	SolverS      float64
	QuickSat     int
	WallS        float64 `json:"wall_s"`
	Drift        int `json:"model_drift"`
	FnCount      map[string]int64 `json:"-"`
	Stubs        map[string]int `json:"-"`
	Witness []WitnessRec `json:"-"`
}

// ---------- path condition / solver ----------

func (in *Interp) addPC(t *Term) {
	if t.IsConst() {
		if t.k == 0 {
			panic(pathAbort{"infeasible", "pc false"})
		}
		return
	}
	if in.pcFacts[t] {
		return
	}
	in.pc = append(in.pc, t)
	in.pcFacts[t] = true
	if in.cfg.Concrete == nil && in.ts.Eval(t) == 0 {
		in.res.drift++
		if os.Getenv("SYMGO_DRIFT") != "" {
			fmt.Fprintf(os.Stderr, "DRIFT pc term %v false under model; pos=%d/%d trace=%s\n%s\n", t, in.pos, len(in.prefix), traceString(in.trace), debug.Stack())
		}
	}
	if v := t.sup; v != nil && v != multiSup && v.w <= 8 && v.w > 0 {
		d := in.domOf(v)
		n := 0
		for val := uint64(0); val <= mask(v.w); val++ {
			if d[val>>6]&(1<<(val&63)) == 0 {
				continue
			}
			if in.ts.EvalWith(t, v, val) == 0 {
				d[val>>6] &^= 1 << (val & 63)
				in.domVer[v]++
			} else {
				n++
			}
		}
		if n == 0 {
			panic(pathAbort{"infeasible", "domain empty"})
		}
	}
}

func (in *Interp) domOf(v *Term) *[4]uint64 {
	d := in.dom[v]
	if d == nil {
		d = &[4]uint64{}
		for val := uint64(0); val <= mask(v.w); val++ {
			d[val>>6] |= 1 << (val & 63)
		}
		in.dom[v] = d
	}
	return d
}

// domSat: for a constraint over a single small variable, the values of its domain that satisfy it.
func (in *Interp) domSat(extra *Term) (vals []uint64, applicable bool) {
	v := extra.sup
	if v == nil || v == multiSup || v.w > 8 || v.w == 0 {
		return nil, false
	}
	d := in.domOf(v)
	for val := uint64(0); val <= mask(v.w); val++ {
		if d[val>>6]&(1<<(val&63)) == 0 {
			continue
		}
		if in.ts.EvalWith(extra, v, val) != 0 {
			vals = append(vals, val)
		}
	}
	return vals, true
}

func (in *Interp) syncPC() {
	for ; in.pcSynced < len(in.pc); in.pcSynced++ {
		in.sol.Assert(in.pc[in.pcSynced])
	}
}

// quickSat looks for a model of pc ∧ extra by local mutation of the current witness.
func (in *Interp) quickSat(extra *Term) map[string]uint64 {
	ts := in.ts
	var vars []*Term
	ts.Support(extra, map[*Term]bool{}, &vars)
	if len(vars) == 0 || len(vars) > 6 {
		return nil
	}
	consts := map[uint64]bool{}
	collectConsts(extra, map[*Term]bool{}, consts)
	base := ts.model
	try := func(m map[string]uint64) bool {
		ts.SetModel(m)
		if ts.Eval(extra) == 0 {
			return false
		}
		for _, p := range in.pc {
			if ts.Eval(p) == 0 {
				return false
			}
		}
		return true
	}
	defer ts.SetModel(base)
	for _, v := range vars {
		cands := []uint64{0, mask(v.w), 1}
		for c := range consts {
			cands = append(cands, c, c+1, c-1, c|0x20, c&^0x20)
		}
		if len(cands) > 40 {
			cands = cands[:40]
		}
		seen := map[uint64]bool{}
		for _, c := range cands {
			c &= mask(v.w)
			if seen[c] {
				continue
			}
			seen[c] = true
			m := make(map[string]uint64, len(base)+1)
			for k, x := range base {
				m[k] = x
			}
			m[v.name] = c
			if try(m) {
				return m
			}
		}
	}
	return nil
}

// enumWorkLimit bounds the node evaluations spent by one two-variable enumeration pass (tryEnum2); beyond it
// the remaining sub-formulas are left to the solver.
const enumWorkLimit = int64(400_000_000)

type simpEnt struct {
	ver int
	res *Term
}

// simplifyBool replaces single-variable sub-formulas that are constant over the variable's
// current domain (derived from the path condition) by that constant. Sound under pc.
func (in *Interp) simplifyBool(t *Term) *Term {
	if t.IsConst() || t.w != 0 {
		return t
	}
	ts := in.ts
	if v := t.sup; v != nil && v != multiSup {
		if v.w > 8 || v.w == 0 {
			return t
		}
		if e, ok := in.simpMemo[t]; ok && e.ver == in.domVer[v] {
			return e.res
		}
		d := in.domOf(v)
		nT, nF := 0, 0
		for val := uint64(0); val <= mask(v.w) && (nT == 0 || nF == 0); val++ {
			if d[val>>6]&(1<<(val&63)) == 0 {
				continue
			}
			if ts.EvalWith(t, v, val) != 0 {
				nT++
			} else {
				nF++
			}
		}
		res := t
		if nF == 0 {
			res = ts.True
		} else if nT == 0 {
			res = ts.False
		}
		in.simpMemo[t] = simpEnt{in.domVer[v], res}
		return res
	}
	if in.enum2 && t.sup2[0] != nil && t.sup2[0].w <= 8 && t.sup2[1].w <= 8 && t.sup2[0].w > 0 && t.sup2[1].w > 0 && t.size < 400000 {
		// two small variables: decide by enumeration of both domains
		v1, v2 := t.sup2[0], t.sup2[1]
		key := t
		if e, ok := in.simpMemo[key]; ok && e.ver == in.domVer[v1]*100003+in.domVer[v2] {
			return e.res
		}
		if in.enumWork > enumWorkLimit {
			goto structural
		}
		d1, d2 := in.domOf(v1), in.domOf(v2)
		nT, nF := 0, 0
		cost := int64(t.size)
		if cost > 20000 {
			cost = 20000
		}
		// cheap sampling first: most non-constant terms show both values quickly
		for i := uint64(0); i < 48 && (nT == 0 || nF == 0); i++ {
			a := (i*37 + 11) & mask(v1.w)
			b := (i*101 + 7) & mask(v2.w)
			if i%3 == 0 {
				b = a & mask(v2.w)
			}
			if d1[a>>6]&(1<<(a&63)) == 0 || d2[b>>6]&(1<<(b&63)) == 0 {
				continue
			}
			if ts.EvalWith2(t, v1, a, v2, b) != 0 {
				nT++
			} else {
				nF++
			}
		}
		if nT > 0 && nF > 0 {
			in.simpMemo[key] = simpEnt{in.domVer[v1]*100003 + in.domVer[v2], t}
			goto structural
		}
		nT, nF = 0, 0
	outer:
		for a := uint64(0); a <= mask(v1.w); a++ {
			if d1[a>>6]&(1<<(a&63)) == 0 {
				continue
			}
			for b := uint64(0); b <= mask(v2.w); b++ {
				if d2[b>>6]&(1<<(b&63)) == 0 {
					continue
				}
				if ts.EvalWith2(t, v1, a, v2, b) != 0 {
					nT++
				} else {
					nF++
				}
				in.enumWork += cost
				if nT > 0 && nF > 0 {
					break outer
				}
				if in.enumWork > enumWorkLimit {
					in.stats.EnumCut++
					goto structural
				}
			}
		}
		res := t
		if nF == 0 {
			res = ts.True
		} else if nT == 0 {
			res = ts.False
		}
		in.simpMemo[key] = simpEnt{in.domVer[v1]*100003 + in.domVer[v2], res}
		if res != t {
			in.stats.Enum2++
			return res
		}
	}
structural:
	switch t.op {
	case OpAnd:
		return ts.And(in.simplifyBool(t.a), in.simplifyBool(t.b))
	case OpOr:
		return ts.Or(in.simplifyBool(t.a), in.simplifyBool(t.b))
	case OpNot:
		return ts.Not(in.simplifyBool(t.a))
	case OpIte:
		c := in.simplifyBool(t.a)
		return ts.Ite(c, in.simplifyBool(t.b), in.simplifyBool(t.c))
	}
	return t
}

func flattenOr(t *Term, out *[]*Term, limit int) bool {
	if t.op == OpOr {
		return flattenOr(t.a, out, limit) && flattenOr(t.b, out, limit)
	}
	if t.op == OpNot && t.a.op == OpAnd {
		// ¬(a ∧ b) = ¬a ∨ ¬b  (Not() constructor keeps negation normal form for comparisons)
		return false
	}
	*out = append(*out, t)
	return len(*out) <= limit
}

// feasible decides pc ∧ extra. Returns (model, "sat"|"unsat"|"unknown").
func (in *Interp) feasible(extra *Term) (map[string]uint64, string) {
	extra = in.simplifyBool(extra)
	if extra.IsConst() {
		if extra.k == 0 {
			return nil, "unsat"
		}
	}
	// split disjunctions: each disjunct is usually over fewer variables
	if extra.op == OpOr || (extra.op == OpNot && extra.a.op == OpAnd) {
		var ds []*Term
		if in.disjuncts(extra, &ds, 96) && len(ds) > 1 {
			unknown := false
			for _, d := range ds {
				m, r := in.feasible(d)
				if r == "sat" {
					return m, r
				}
				if r == "unknown" {
					unknown = true
				}
			}
			if unknown {
				return nil, "unknown"
			}
			return nil, "unsat"
		}
	}
	if vals, ok := in.domSat(extra); ok {
		if len(vals) == 0 {
			in.stats.DomUnsat++
			return nil, "unsat"
		}
		// try a few satisfying values against the full pc
		v := extra.sup
		base := in.ts.model
		step := len(vals)/6 + 1
		for i := 0; i < len(vals); i += step {
			m := make(map[string]uint64, len(base)+1)
			for k, x := range base {
				m[k] = x
			}
			m[v.name] = vals[i]
			in.ts.SetModel(m)
			good := true
			for _, p := range in.pc {
				if in.ts.Eval(p) == 0 {
					good = false
					break
				}
			}
			in.ts.SetModel(base)
			if good {
				in.stats.QuickSat++
				return m, "sat"
			}
		}
	} else if m := in.quickSat(extra); m != nil {
		in.stats.QuickSat++
		return m, "sat"
	}
	tryEnum2 := func() (map[string]uint64, string, bool) {
		if in.enum2 {
			return nil, "", false
		}
		in.enum2 = true
		in.enumWork = 0
		e2 := in.simplifyBool(extra)
		in.enum2 = false
		if e2.IsConst() {
			if e2.k == 0 {
				return nil, "unsat", true
			}
			return in.ts.model, "sat", true
		} else if e2 != extra {
			m, r := in.feasible(e2)
			return m, r, true
		}
		return nil, "", false
	}
	// table-heavy constraints over two octet variables: exhaustive evaluation beats the solver
	if extra.size > 400 {
		if m, r, ok := tryEnum2(); ok {
			return m, r
		}
	}
	in.syncPC()
	in.sol.Push()
	in.sol.Assert(extra)
	tq := time.Now()
	r := in.sol.Check()
	if d := time.Since(tq); d > time.Second && os.Getenv("SYMGO_SLOW") != "" {
		st := ""
		for f := in.curFrame; f != nil; f = f.caller {
			st += " <- " + f.fn.String()
		}
		fmt.Fprintf(os.Stderr, "SLOW query %.1fs result=%s size=%d extra=%v\n   at%s\n", d.Seconds(), r, extra.size, extra, st)
	}
	var m map[string]uint64
	if r == "sat" {
		var ok bool
		m, ok = in.sol.Values(in.ts.vars)
		if !ok {
			r = "unknown"
		}
	}
	if in.sol.dead {
		// solver died: restart and re-assert pc lazily
		in.sol.ResetPath()
		in.sol.Push()
		in.pcSynced = 0
		// all terms must be re-defined
		for _, t := range in.ts.tab {
			t.defLvl = -1
		}
		return m, r
	}
	in.sol.Pop()
	if r == "unknown" && extra.size <= 400 {
		if m2, r2, ok := tryEnum2(); ok {
			return m2, r2
		}
	}
	return m, r
}

// disjuncts flattens t into a list of disjuncts (pushing negation through conjunctions).
func (in *Interp) disjuncts(t *Term, out *[]*Term, limit int) bool {
	switch {
	case t.op == OpOr:
		return in.disjuncts(t.a, out, limit) && in.disjuncts(t.b, out, limit)
	case t.op == OpNot && t.a.op == OpAnd:
		return in.disjuncts(in.ts.Not(t.a.a), out, limit) && in.disjuncts(in.ts.Not(t.a.b), out, limit)
	}
	*out = append(*out, t)
	return len(*out) <= limit
}

var debugForks = os.Getenv("SYMGO_FORKS") != ""

type mergeAbort struct{}

func (in *Interp) decide(c *Term, tag string) bool {
	if c.IsConst() {
		return c.k != 0
	}
	if in.pcFacts[c] {
		return true
	}
	if in.pcFacts[in.ts.Not(c)] {
		return false
	}
	if in.noFork > 0 {
		panic(mergeAbort{})
	}
	if in.cfg.Concrete == nil {
		if sc := in.simplifyBool(c); sc.IsConst() {
			return sc.k != 0
		}
	}
	in.res.decisions++
	ts := in.ts
	if in.pos < len(in.prefix) {
		d := in.prefix[in.pos]
		in.pos++
		if d.Kind != 'b' {
			panic(fmt.Sprintf("replay divergence: expected branch, prefix has %c (tag %s)", d.Kind, tag))
		}
		side := d.Val == 1
		if side {
			in.addPC(c)
		} else {
			in.addPC(ts.Not(c))
		}
		in.trace = append(in.trace, d)
		return side
	}
	if in.cfg.Concrete != nil {
		side := ts.Eval(c) != 0
		in.trace = append(in.trace, Decision{'b', b2u(side), tag})
		return side
	}
	side := ts.Eval(c) != 0
	other := c
	if side {
		other = ts.Not(c)
	}
	m, r := in.feasible(other)
	switch r {
	case "sat":
		np := make([]Decision, len(in.trace)+1)
		copy(np, in.trace)
		np[len(in.trace)] = Decision{'b', b2u(!side), tag}
		in.newWork = append(in.newWork, &WorkItem{Prefix: np, Model: m})
		if debugForks {
			fn := ""
			if in.curFrame != nil {
				fn = in.curFrame.fn.String()
			}
			in.stubs["fork:"+tag+"@"+fn]++
		}
	case "unknown":
		in.res.unknown++
	default:
		in.stats.Pruned++
	}
	in.trace = append(in.trace, Decision{'b', b2u(side), tag})
	if side {
		in.addPC(c)
	} else {
		in.addPC(ts.Not(c))
	}
	return side
}

const maxConcretize = 600

// concretize picks a concrete value for t, forking over all feasible values.
func (in *Interp) concretize(t *Term, tag string) uint64 {
	if t.IsConst() {
		return t.k
	}
	if in.noFork > 0 {
		panic(mergeAbort{})
	}
	in.res.decisions++
	ts := in.ts
	if in.pos < len(in.prefix) {
		d := in.prefix[in.pos]
		in.pos++
		if d.Kind != 'c' {
			panic(fmt.Sprintf("replay divergence: expected concretise, prefix has %c (tag %s)", d.Kind, tag))
		}
		in.addPC(ts.Eq(t, ts.Const(t.w, d.Val)))
		in.trace = append(in.trace, d)
		return d.Val
	}
	v := ts.Eval(t)
	if in.cfg.Concrete != nil {
		in.trace = append(in.trace, Decision{'c', v, tag})
		return v
	}
	// enumerate the alternatives
	excl := ts.Not(ts.Eq(t, ts.Const(t.w, v)))
	n := 0
	for {
		m, r := in.feasible(excl)
		if r == "unsat" {
			break
		}
		if r == "unknown" {
			in.res.unknown++
			break
		}
		save := ts.model
		ts.SetModel(m)
		v2 := ts.Eval(t)
		ts.SetModel(save)
		np := make([]Decision, len(in.trace)+1)
		copy(np, in.trace)
		np[len(in.trace)] = Decision{'c', v2, tag}
		in.newWork = append(in.newWork, &WorkItem{Prefix: np, Model: m})
		excl = ts.And(excl, ts.Not(ts.Eq(t, ts.Const(t.w, v2))))
		n++
		if n > maxConcretize {
			in.res.unknown++
			in.res.msg = "concretisation fan-out limit reached (" + tag + ")"
			break
		}
	}
	in.trace = append(in.trace, Decision{'c', v, tag})
	in.addPC(ts.Eq(t, ts.Const(t.w, v)))
	return v
}

// choice implements vChoice(name, k): a concrete value 0..k-1 enumerated by forking.
func (in *Interp) choice(name string, k int) int {
	if in.noFork > 0 {
		panic(mergeAbort{})
	}
	in.res.decisions++
	if in.pos < len(in.prefix) {
		d := in.prefix[in.pos]
		in.pos++
		if d.Kind != 'h' {
			panic("replay divergence: expected choice")
		}
		in.trace = append(in.trace, d)
		in.res.model["#"+name] = d.Val
		return int(d.Val)
	}
	if in.cfg.Concrete != nil {
		v := in.cfg.Concrete["#"+name]
		if int(v) >= k {
			v = 0
		}
		in.res.model["#"+name] = v
		in.trace = append(in.trace, Decision{'h', v, name})
		return int(v)
	}
	for i := 1; i < k; i++ {
		np := make([]Decision, len(in.trace)+1)
		copy(np, in.trace)
		np[len(in.trace)] = Decision{'h', uint64(i), name}
		in.newWork = append(in.newWork, &WorkItem{Prefix: np, Model: in.ts.model})
	}
	in.trace = append(in.trace, Decision{'h', 0, name})
	in.res.model["#"+name] = 0
	return 0
}

// ---------- running one path ----------

func (in *Interp) runPath(fn *ssa.Function, item *WorkItem) (res *PathResult) {
	res = &PathResult{status: "ok", assertIDs: map[string]int{}, reach: map[string]int{}, model: map[string]uint64{}}
	in.res = res
	in.ts.Reset()
	model := item.Model
	if model == nil {
		model = map[string]uint64{}
	}
	if in.cfg.Concrete != nil {
		model = in.cfg.Concrete
	}
	in.ts.SetModel(model)
	in.pc = in.pc[:0]
	in.pcSynced = 0
	in.pcFacts = map[*Term]bool{}
	in.dom = map[*Term]*[4]uint64{}
	in.domVer = map[*Term]int{}
	in.simpMemo = map[*Term]simpEnt{}
	in.canonMemo = nil
	in.prefix = item.Prefix
	in.pos = 0
	in.trace = in.trace[:0]
	in.newWork = nil
	in.steps = 0
	in.alloc = 0
	in.maxSteps = in.cfg.MaxSteps
	in.sliceData = map[*value][]value{}
	in.hashes = nil
	in.natives = map[string]interface{}{}
	in.noFork = 0
	in.specFresh = nil
	in.mergeFail = nil
	in.curFrame = nil
	in.sched = nil
	in.uniq = 0
	if in.sol != nil {
		in.sol.ResetPath()
		in.sol.Push()
	}
	in.journaling = true
	defer func() {
		r := recover()
		in.journaling = false
		in.undoAll()
		res.steps = in.steps
		res.alloc = in.alloc
		func() {
			defer func() { recover() }()
			for _, o := range res.obsRecs {
				var sb strings.Builder
				sb.WriteString(o.tag)
				for _, a := range o.vals {
					sb.WriteByte(' ')
					sb.WriteString(in.obsString(a.(iface)))
				}
				res.observations = append(res.observations, sb.String())
			}
		}()
		res.trace = append([]Decision(nil), in.trace...)
		for k, v := range in.ts.model {
			if _, ok := res.model[k]; !ok {
				if _, declared := in.ts.varsMap[k]; declared {
					res.model[k] = v
				}
			}
		}
		for _, v := range in.ts.vars {
			if _, ok := res.model[v.name]; !ok {
				res.model[v.name] = 0
			}
		}
		if r == nil {
			return
		}
		switch r := r.(type) {
		case pathAbort:
			res.status = r.kind
			res.msg = r.msg
		case targetPanic:
			// a panic escaped the harness: it is a violation of the implicit no-panic assertion
			msg := "panic: " + in.panicString(r.v)
			res.violations = append(res.violations, Violation{Assert: "no-panic", Kind: "panic", Msg: msg, Inputs: in.currentInputs()})
			res.status = "ok"
		case mergeAbort:
			res.status = "unsupported"
			res.msg = "stray merge abort"
		default:
			res.status = "unsupported"
			res.msg = fmt.Sprintf("interpreter fault: %v\n%s", r, debug.Stack())
		}
	}()
	in.callSSA(nil, fn, nil, nil)
	if in.sched != nil {
		in.sched.finish(in)
	}
	return res
}

func (in *Interp) currentInputs() map[string]uint64 {
	m := map[string]uint64{}
	for _, v := range in.ts.vars {
		m[v.name] = in.ts.model[v.name] & mask(v.w)
	}
	for k, v := range in.res.model {
		if strings.HasPrefix(k, "#") {
			m[k] = v
		}
	}
	return m
}

func (in *Interp) panicString(v value) string {
	it, ok := v.(iface)
	if !ok || it.t == nil {
		return toDebug(v)
	}
	if s, ok := it.v.(str); ok {
		return s.String()
	}
	// error value: try Error()
	defer func() { recover() }()
	if f := in.lookupMethodByName(it.t, "Error"); f != nil {
		in.noFork++
		r := in.callSSA(nil, f, []value{it.v}, nil)
		in.noFork--
		if s, ok := r.(str); ok {
			return s.String()
		}
	}
	return it.t.String()
}

// ---------- explorer ----------

type Explorer struct {
	P     *Prog
	cfg   *RunConfig
	mu    sync.Mutex
	cond  *sync.Cond
	queue []*WorkItem
	busy  int
	stats *HarnessStats
	done  bool
	seenViol map[string]bool
}

func (in *Interp) mergeStats(dst *HarnessStats) {}

func RunHarness(P *Prog, pool *WorkerPool, cfg *RunConfig) *HarnessStats {
	fn := P.dns.Func(cfg.Harness)
	st := &HarnessStats{Name: cfg.Harness, Reach: map[string]int{}, AssertIDs: map[string]int{}, UnsupportedMsgs: map[string]int{},
		FnCount: map[string]int64{}, Stubs: map[string]int{}, Exhaustive: true}
	if fn == nil {
		st.Exhaustive = false
		st.UnsupportedMsgs["harness function not found (does it compile against this tree?)"]++
		st.Unsupported = 1
		return st
	}
	t0 := time.Now()
	ex := &Explorer{P: P, cfg: cfg, stats: st, seenViol: map[string]bool{}}
	ex.cond = sync.NewCond(&ex.mu)
	ex.queue = []*WorkItem{{}}
	var wg sync.WaitGroup
	nw := cfg.Workers
	if cfg.Concrete != nil {
		nw = 1
	}
	for i := 0; i < nw; i++ {
		wg.Add(1)
		go func(i int) {
			defer wg.Done()
			in := pool.Get(i)
			in.cfg = cfg
			ex.worker(in, fn)
		}(i)
	}
	wg.Wait()
	if len(ex.queue) > 0 {
		st.Exhaustive = false
	}
	st.WallS = time.Since(t0).Seconds()
	return st
}

func (ex *Explorer) worker(in *Interp, fn *ssa.Function) {
	st := ex.stats
	for {
		ex.mu.Lock()
		for len(ex.queue) == 0 && ex.busy > 0 && !ex.done {
			ex.cond.Wait()
		}
		if ex.done || (len(ex.queue) == 0 && ex.busy == 0) {
			ex.cond.Broadcast()
			ex.mu.Unlock()
			return
		}
		// budget
		if (ex.cfg.MaxPaths > 0 && st.Paths+st.Unsupported+st.OverBudget >= ex.cfg.MaxPaths) || (!ex.cfg.Deadline.IsZero() && time.Now().After(ex.cfg.Deadline)) {
			ex.done = true
			st.Exhaustive = false
			ex.cond.Broadcast()
			ex.mu.Unlock()
			return
		}
		// LIFO: depth-first keeps the queue small
		item := ex.queue[len(ex.queue)-1]
		ex.queue = ex.queue[:len(ex.queue)-1]
		ex.busy++
		ex.mu.Unlock()

		in.stats = &workerStats{}
		s0, u0, k0, sec0 := 0, 0, 0, 0.0
		if in.sol != nil {
			s0, u0, k0, sec0 = in.sol.nSat, in.sol.nUnsat, in.sol.nUnknown, in.sol.seconds
		}
		in.fnCount = map[*ssa.Function]int64{}
		in.stubs = map[string]int{}
		res := in.runPath(fn, item)

		ex.mu.Lock()
		ex.busy--
		if os.Getenv("SYMGO_TRACE") != "" {
			var sb strings.Builder
			for _, d := range res.trace {
				fmt.Fprintf(&sb, "%s:%c%d ", d.Tag, d.Kind, d.Val)
			}
			fmt.Fprintf(os.Stderr, "PATH %s steps=%d %s | %s\n", res.status, res.steps, res.msg, sb.String())
		}
		if os.Getenv("SYMGO_OBS") != "" {
			for _, o := range res.observations {
				fmt.Fprintf(os.Stderr, "OBS %s\n", o)
			}
		}
		switch res.status {
		case "ok", "done":
			st.Paths++
		case "unsupported":
			st.Unsupported++
			st.Exhaustive = false
			msg := res.msg
			if i := strings.IndexByte(msg, '\n'); i > 0 && !ex.cfg.Verbose {
				msg = msg[:i]
			}
			st.UnsupportedMsgs[msg]++
			if ex.cfg.Verbose && st.UnsupportedMsgs[msg] == 1 {
				fmt.Fprintf(os.Stderr, "[%s] unsupported: %s\n", ex.cfg.Harness, res.msg)
			}
		case "budget":
			st.OverBudget++
			st.Exhaustive = false
			st.UnsupportedMsgs["budget: "+res.msg]++
		case "infeasible":
			st.Pruned++
		}
		if res.unknown > 0 {
			st.Unknown += res.unknown
			st.Exhaustive = false
			if res.msg != "" {
				st.UnsupportedMsgs[res.msg]++
			}
		}
		st.Decisions += res.decisions
		st.Asserts += res.asserts
		st.TotalSteps += res.steps
		st.Drift += res.drift
		if res.steps > st.MaxSteps {
			st.MaxSteps = res.steps
		}
		if res.alloc > st.MaxAlloc {
			st.MaxAlloc = res.alloc
		}
		for k, v := range res.reach {
			st.Reach[k] += v
		}
		for k, v := range res.assertIDs {
			st.AssertIDs[k] += v
		}
		st.Pruned += in.stats.Pruned
		st.QuickSat += in.stats.QuickSat
		if in.sol != nil {
			st.Sat += in.sol.nSat - s0
			st.Unsat += in.sol.nUnsat - u0
			st.Unknown += 0 * (in.sol.nUnknown - k0)
			st.SolverS += in.sol.seconds - sec0
		}
		for f, n := range in.fnCount {
			st.FnCount[f.String()] += n
		}
		for s, n := range in.stubs {
			st.Stubs[s] += n
		}
		for _, v := range res.violations {
			v.Harness = ex.cfg.Harness
			key := v.Assert + "|" + v.Finding
			if !ex.seenViol[key] || len(st.Violations) < 3 {
				ex.seenViol[key] = true
				v.Path = traceString(res.trace)
				st.Violations = append(st.Violations, v)
			}
			if ex.cfg.StopOnViol {
				ex.done = true
			}
		}
		if res.status == "ok" && len(st.Samples) < 4 {
			st.Samples = append(st.Samples, map[string]interface{}{"harness": ex.cfg.Harness, "path": traceString(res.trace), "witness": res.model, "steps": res.steps})
		}
		if res.status == "ok" && len(res.violations) == 0 && len(st.Witness) < 64 {
			st.Witness = append(st.Witness, WitnessRec{res.model, res.observations})
		}
		ex.queue = append(ex.queue, in.newWork...)
		ex.cond.Broadcast()
		ex.mu.Unlock()
	}
}

type workerStats struct {
	Pruned   int
	QuickSat int
	DomUnsat int
	Merges   int
	Enum2    int
	EnumCut  int
}

func traceString(tr []Decision) string {
	var sb strings.Builder
	for i, d := range tr {
		if i > 200 {
			sb.WriteString("…")
			break
		}
		switch d.Kind {
		case 'b':
			if d.Val == 1 {
				sb.WriteByte('T')
			} else {
				sb.WriteByte('F')
			}
		case 'c':
			fmt.Fprintf(&sb, "[%d]", d.Val)
		case 'h':
			fmt.Fprintf(&sb, "<%d>", d.Val)
		}
	}
	return sb.String()
}

// WorkerPool keeps one interpreter (own heap, own solver) per worker slot.
type WorkerPool struct {
	P       *Prog
	mu      sync.Mutex
	workers map[int]*Interp
	kind    string
	timeout int
}

func (wp *WorkerPool) Get(i int) *Interp {
	wp.mu.Lock()
	in := wp.workers[i]
	wp.mu.Unlock()
	if in != nil {
		return in
	}
	in = NewInterp(wp.P)
	sol, err := NewSolver(wp.kind, wp.timeout)
	if err != nil {
		panic(err)
	}
	in.sol = sol
	wp.mu.Lock()
	wp.workers[i] = in
	wp.mu.Unlock()
	return in
}

func (wp *WorkerPool) Close() {
	for _, in := range wp.workers {
		if in.sol != nil {
			in.sol.Close()
		}
	}
}

func sortedKeys(m map[string]int) []string {
	var ks []string
	for k := range m {
		ks = append(ks, k)
	}
	sort.Strings(ks)
	return ks
}
