package main

// One long-lived SMT solver process per worker, SMT-LIB2 text over a pipe.

import (
	"bufio"
	"os"
	"fmt"
	"io"
	"os/exec"
	"strconv"
	"strings"
	"time"
)

type Solver struct {
	kind    string // z3 | z3-new | cvc5
	cmd     *exec.Cmd
	in      io.WriteCloser
	out     *bufio.Reader
	level   int32
	defined [][]*Term // per level
	buf     strings.Builder
	timeout int // ms
	// stats
	nSat, nUnsat, nUnknown int
	seconds                float64
	dead                   bool
	logf                   io.Writer
}

func NewSolver(kind string, timeoutMs int) (*Solver, error) {
	s := &Solver{kind: kind, timeout: timeoutMs}
	if err := s.start(); err != nil {
		return nil, err
	}
	return s, nil
}

func (s *Solver) start() error {
	var cmd *exec.Cmd
	switch s.kind {
	case "z3", "z3-new":
		cmd = exec.Command(s.kind, "-in", fmt.Sprintf("-t:%d", s.timeout))
	case "cvc5":
		cmd = exec.Command("cvc5", "--incremental", "--produce-models", "--lang=smt2", fmt.Sprintf("--tlimit-per=%d", s.timeout))
	default:
		return fmt.Errorf("unknown solver %s", s.kind)
	}
	in, err := cmd.StdinPipe()
	if err != nil {
		return err
	}
	out, err := cmd.StdoutPipe()
	if err != nil {
		return err
	}
	cmd.Stderr = nil
	if err := cmd.Start(); err != nil {
		return err
	}
	s.cmd, s.in, s.out = cmd, in, bufio.NewReaderSize(out, 1<<16)
	s.level = 0
	s.defined = [][]*Term{nil}
	s.dead = false
	s.buf.Reset()
	if s.kind == "cvc5" {
		s.buf.WriteString("(set-logic ALL)\n")
	}
	s.buf.WriteString("(set-option :produce-models true)\n")
	if d := os.Getenv("SYMGO_SMTLOG"); d != "" && s.logf == nil {
		f, _ := os.CreateTemp(d, "smt-*.smt2")
		s.logf = f
	}
	return nil
}

func (s *Solver) Close() {
	if s.cmd != nil {
		s.in.Close()
		s.cmd.Process.Kill()
		s.cmd.Wait()
		s.cmd = nil
	}
}

func (s *Solver) restart() {
	s.Close()
	if err := s.start(); err != nil {
		panic(err)
	}
}

// ResetPath drops everything (new path).
func (s *Solver) ResetPath() {
	if s.dead {
		s.restart()
		return
	}
	for s.level > 0 {
		s.Pop()
	}
	// level 0 holds nothing; open the path level
}

func (s *Solver) Push() {
	s.buf.WriteString("(push 1)\n")
	s.level++
	s.defined = append(s.defined, nil)
}

func (s *Solver) Pop() {
	s.buf.WriteString("(pop 1)\n")
	for _, t := range s.defined[s.level] {
		t.defLvl = -1
	}
	s.defined = s.defined[:s.level]
	s.level--
}

func (s *Solver) define(t *Term) {
	if t == nil || t.op == OpConst || t.defLvl >= 0 {
		return
	}
	// iterative post-order to avoid deep recursion
	type fr struct {
		t *Term
		i int
	}
	stack := []fr{{t, 0}}
	for len(stack) > 0 {
		top := &stack[len(stack)-1]
		x := top.t
		if x.defLvl >= 0 || x.op == OpConst {
			stack = stack[:len(stack)-1]
			continue
		}
		var kid *Term
		switch top.i {
		case 0:
			kid = x.a
		case 1:
			kid = x.b
		case 2:
			kid = x.c
		}
		if top.i < 3 {
			top.i++
			if kid != nil && kid.defLvl < 0 && kid.op != OpConst {
				stack = append(stack, fr{kid, 0})
			}
			continue
		}
		if x.op == OpVar {
			fmt.Fprintf(&s.buf, "(declare-const |%s| %s)\n", x.name, sortSMT(x.w))
		} else {
			fmt.Fprintf(&s.buf, "(define-fun t%d () %s %s)\n", x.id, sortSMT(x.w), x.body())
		}
		x.defLvl = s.level
		s.defined[s.level] = append(s.defined[s.level], x)
		stack = stack[:len(stack)-1]
	}
}

func (s *Solver) Assert(t *Term) {
	s.define(t)
	fmt.Fprintf(&s.buf, "(assert %s)\n", t.ref())
}

func (s *Solver) flush() error {
	if s.logf != nil {
		io.WriteString(s.logf, s.buf.String())
	}
	_, err := io.WriteString(s.in, s.buf.String())
	s.buf.Reset()
	return err
}

// Check returns "sat", "unsat" or "unknown".
func (s *Solver) Check() string {
	t0 := time.Now()
	s.buf.WriteString("(check-sat)\n")
	if err := s.flush(); err != nil {
		s.dead = true
		s.nUnknown++
		return "unknown"
	}
	res := "unknown"
	type lineRes struct {
		s   string
		err error
	}
	ch := make(chan lineRes, 1)
	go func() {
		for {
			line, err := s.out.ReadString('\n')
			if err != nil {
				ch <- lineRes{"", err}
				return
			}
			line = strings.TrimSpace(line)
			if line == "" {
				continue
			}
			ch <- lineRes{line, nil}
			return
		}
	}()
	select {
	case r := <-ch:
		if r.err != nil {
			s.dead = true
		} else {
			switch r.s {
			case "sat", "unsat", "unknown":
				res = r.s
			default:
				// (error ...) or anything else: inconclusive; the stream may be out of sync
				s.dead = true
			}
		}
	case <-time.After(time.Duration(s.timeout)*time.Millisecond*2 + 5*time.Second):
		s.dead = true
		s.cmd.Process.Kill()
	}
	s.seconds += time.Since(t0).Seconds()
	switch res {
	case "sat":
		s.nSat++
	case "unsat":
		s.nUnsat++
	default:
		s.nUnknown++
	}
	return res
}

// Values reads the model values of the given variables (after sat).
func (s *Solver) Values(vars []*Term) (map[string]uint64, bool) {
	m := map[string]uint64{}
	var ask []*Term
	for _, v := range vars {
		if v.defLvl >= 0 {
			ask = append(ask, v)
		}
	}
	if len(ask) == 0 {
		return m, true
	}
	s.buf.WriteString("(get-value (")
	for _, v := range ask {
		s.buf.WriteString(v.ref())
		s.buf.WriteByte(' ')
	}
	s.buf.WriteString("))\n")
	if err := s.flush(); err != nil {
		s.dead = true
		return nil, false
	}
	// read a balanced s-expression
	var sb strings.Builder
	depth := 0
	started := false
	inBar := false
	for {
		c, err := s.out.ReadByte()
		if err != nil {
			s.dead = true
			return nil, false
		}
		sb.WriteByte(c)
		if c == '|' {
			inBar = !inBar
		}
		if inBar {
			continue
		}
		if c == '(' {
			depth++
			started = true
		} else if c == ')' {
			depth--
			if started && depth == 0 {
				break
			}
		}
	}
	txt := sb.String()
	if strings.Contains(txt, "(error") {
		s.dead = true
		return nil, false
	}
	// parse pairs (|name| #x..) / (name true)
	i := 0
	for {
		j := strings.IndexByte(txt[i:], '|')
		if j < 0 {
			break
		}
		j += i
		k := strings.IndexByte(txt[j+1:], '|')
		if k < 0 {
			break
		}
		k += j + 1
		name := txt[j+1 : k]
		rest := txt[k+1:]
		e := strings.IndexByte(rest, ')')
		if e < 0 {
			break
		}
		val := strings.TrimSpace(rest[:e])
		var v uint64
		switch {
		case strings.HasPrefix(val, "#x"):
			v, _ = strconv.ParseUint(val[2:], 16, 64)
		case strings.HasPrefix(val, "#b"):
			v, _ = strconv.ParseUint(val[2:], 2, 64)
		case val == "true":
			v = 1
		case val == "false":
			v = 0
		case strings.HasPrefix(val, "(_ bv"):
			f := strings.Fields(val[5:])
			v, _ = strconv.ParseUint(f[0], 10, 64)
			e2 := strings.IndexByte(rest[e+1:], ')')
			_ = e2
		}
		m[name] = v
		i = k + 1 + e
	}
	return m, true
}
