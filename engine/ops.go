package main

import (
	"fmt"
	"go/token"
	"go/types"
	"math"
	"unicode/utf8"

	"golang.org/x/tools/go/ssa"
)

// ---------- scalar helpers ----------

func (in *Interp) toTerm(v value, w uint8) *Term {
	switch v := v.(type) {
	case *Term:
		return v
	case uint64:
		return in.ts.Const(w, v)
	case bool:
		return in.ts.Bool(v)
	}
	panic(fmt.Sprintf("toTerm: %T", v))
}

func (in *Interp) boolTerm(v value) *Term {
	switch v := v.(type) {
	case *Term:
		return v
	case bool:
		return in.ts.Bool(v)
	}
	panic(fmt.Sprintf("boolTerm: %T", v))
}

// canon: a big term over a single octet variable is replaced by an equivalent small one when
// exhaustive evaluation over the variable's domain shows it is constant, the variable itself, or a
// zero-extension of it (e.g. decode(encode(x)) through two table lookups). Sound under the path condition.
func (in *Interp) canon(t *Term) *Term {
	if t.IsConst() || t.size < 40 || t.w == 0 {
		return t
	}
	v := t.sup
	if v == nil || v == multiSup || v.w > 8 || v.w == 0 {
		return t
	}
	if in.canonMemo == nil {
		in.canonMemo = map[*Term]canonEnt{}
	}
	if e, ok := in.canonMemo[t]; ok && e.ver == in.domVer[v] {
		return e.res
	}
	ts := in.ts
	d := in.domOf(v)
	first := true
	var c0 uint64
	isConst, isIdent := true, true
	for val := uint64(0); val <= mask(v.w); val++ {
		if d[val>>6]&(1<<(val&63)) == 0 {
			continue
		}
		x := ts.EvalWith(t, v, val)
		if first {
			c0, first = x, false
		} else if x != c0 {
			isConst = false
		}
		if x != val {
			isIdent = false
		}
		if !isConst && !isIdent {
			break
		}
	}
	res := t
	switch {
	case first:
	case isConst:
		res = ts.Const(t.w, c0)
	case isIdent && t.w == v.w:
		res = v
	case isIdent && t.w > v.w:
		res = ts.ZExt(v, t.w)
	}
	in.canonMemo[t] = canonEnt{in.domVer[v], res}
	return res
}

type canonEnt struct {
	ver int
	res *Term
}

// norm turns constant terms back into concrete values.
func norm(t *Term) value {
	if t.IsConst() {
		if t.w == 0 {
			return t.k != 0
		}
		return t.k
	}
	return t
}

func asInt(v value) int64 {
	switch v := v.(type) {
	case uint64:
		return int64(v)
	}
	panic(fmt.Sprintf("asInt: not a concrete int: %T %v", v, v))
}

// ---------- binop ----------

var cmpTokens = map[token.Token]bool{token.EQL: true, token.NEQ: true, token.LSS: true, token.LEQ: true, token.GTR: true, token.GEQ: true}

func (in *Interp) binop(op token.Token, t types.Type, yt types.Type, x, y value) value {
	if w, signed, ok := intWidth(t); ok {
		return in.intBinop(op, w, signed, yt, x, y)
	}
	switch ut := t.Underlying().(type) {
	case *types.Basic:
		switch {
		case ut.Info()&types.IsBoolean != 0:
			return in.boolBinop(op, x, y)
		case ut.Info()&types.IsString != 0:
			return in.strBinop(op, x.(str), y.(str))
		case ut.Info()&types.IsFloat != 0:
			return floatBinop(op, x, y)
		case ut.Kind() == types.UnsafePointer:
			switch op {
			case token.EQL:
				return x == y
			case token.NEQ:
				return x != y
			}
		}
	}
	switch op {
	case token.EQL:
		return in.equals(t, x, y)
	case token.NEQ:
		return in.notv(in.equals(t, x, y))
	}
	panic(in.unsupported("binop %v on %v", op, t))
}

func (in *Interp) notv(v value) value {
	switch v := v.(type) {
	case bool:
		return !v
	case *Term:
		return norm(in.ts.Not(v))
	}
	panic("notv")
}

func (in *Interp) boolBinop(op token.Token, x, y value) value {
	xb, xok := x.(bool)
	yb, yok := y.(bool)
	if xok && yok {
		switch op {
		case token.EQL:
			return xb == yb
		case token.NEQ:
			return xb != yb
		case token.AND, token.LAND:
			return xb && yb
		case token.OR, token.LOR:
			return xb || yb
		case token.XOR:
			return xb != yb
		case token.AND_NOT:
			return xb && !yb
		}
	}
	a, b := in.boolTerm(x), in.boolTerm(y)
	switch op {
	case token.EQL:
		return norm(in.ts.Eq(a, b))
	case token.NEQ, token.XOR:
		return norm(in.ts.Not(in.ts.Eq(a, b)))
	case token.AND, token.LAND:
		return norm(in.ts.And(a, b))
	case token.OR, token.LOR:
		return norm(in.ts.Or(a, b))
	case token.AND_NOT:
		return norm(in.ts.And(a, in.ts.Not(b)))
	}
	panic(in.unsupported("bool binop %v", op))
}

func floatBinop(op token.Token, x, y value) value {
	switch x := x.(type) {
	case float64:
		y := y.(float64)
		switch op {
		case token.ADD:
			return x + y
		case token.SUB:
			return x - y
		case token.MUL:
			return x * y
		case token.QUO:
			return x / y
		case token.EQL:
			return x == y
		case token.NEQ:
			return x != y
		case token.LSS:
			return x < y
		case token.LEQ:
			return x <= y
		case token.GTR:
			return x > y
		case token.GEQ:
			return x >= y
		}
	case float32:
		y := y.(float32)
		switch op {
		case token.ADD:
			return x + y
		case token.SUB:
			return x - y
		case token.MUL:
			return x * y
		case token.QUO:
			return x / y
		case token.EQL:
			return x == y
		case token.NEQ:
			return x != y
		case token.LSS:
			return x < y
		case token.LEQ:
			return x <= y
		case token.GTR:
			return x > y
		case token.GEQ:
			return x >= y
		}
	}
	panic(pathAbort{"unsupported", fmt.Sprintf("float binop %v on %T", op, x)})
}

func (in *Interp) intBinop(op token.Token, w uint8, signed bool, yt types.Type, x, y value) value {
	xc, xok := x.(uint64)
	yc, yok := y.(uint64)
	m := mask(w)
	if op == token.SHL || op == token.SHR {
		yw, ysigned, _ := intWidth(yt)
		if xok && yok {
			if ysigned && sext(yc, yw) < 0 {
				in.targetPanicStr("runtime error: negative shift amount")
			}
			if op == token.SHL {
				if yc >= uint64(w) {
					return uint64(0)
				}
				return (xc << yc) & m
			}
			if signed {
				if yc >= uint64(w) {
					yc = uint64(w) - 1
				}
				return uint64(sext(xc, w)>>yc) & m
			}
			if yc >= uint64(w) {
				return uint64(0)
			}
			return xc >> yc
		}
		xt := in.toTerm(x, w)
		ytm := in.toTerm(y, yw)
		if ysigned && !nonNeg(ytm) {
			neg := in.ts.Slt(ytm, in.ts.Const(yw, 0))
			if in.decide(neg, "shift<0") {
				in.targetPanicStr("runtime error: negative shift amount")
			}
		}
		// bring count to width w, saturating
		var cnt *Term
		switch {
		case yw == w:
			cnt = ytm
		case yw < w:
			cnt = in.ts.ZExt(ytm, w)
		default:
			big := in.ts.Ult(in.ts.Const(yw, uint64(w)), ytm)
			cnt = in.ts.Ite(big, in.ts.Const(w, uint64(w)), in.ts.Extract(ytm, 0, w))
		}
		switch {
		case op == token.SHL:
			return norm(in.ts.Bin(OpShl, xt, cnt))
		case signed:
			return norm(in.ts.Bin(OpAShr, xt, cnt))
		default:
			return norm(in.ts.Bin(OpLShr, xt, cnt))
		}
	}
	if xok && yok {
		switch op {
		case token.ADD:
			return (xc + yc) & m
		case token.SUB:
			return (xc - yc) & m
		case token.MUL:
			return (xc * yc) & m
		case token.QUO, token.REM:
			if yc == 0 {
				in.targetPanicStr("runtime error: integer divide by zero")
			}
			if signed {
				if op == token.QUO {
					return evalBin(OpSDiv, w, xc, yc)
				}
				return evalBin(OpSRem, w, xc, yc)
			}
			if op == token.QUO {
				return xc / yc
			}
			return xc % yc
		case token.AND:
			return xc & yc
		case token.OR:
			return xc | yc
		case token.XOR:
			return xc ^ yc
		case token.AND_NOT:
			return xc &^ yc
		case token.EQL:
			return xc == yc
		case token.NEQ:
			return xc != yc
		}
		if signed {
			sx, sy := sext(xc, w), sext(yc, w)
			switch op {
			case token.LSS:
				return sx < sy
			case token.LEQ:
				return sx <= sy
			case token.GTR:
				return sx > sy
			case token.GEQ:
				return sx >= sy
			}
		} else {
			switch op {
			case token.LSS:
				return xc < yc
			case token.LEQ:
				return xc <= yc
			case token.GTR:
				return xc > yc
			case token.GEQ:
				return xc >= yc
			}
		}
		panic(in.unsupported("int binop %v", op))
	}
	a, b := in.toTerm(x, w), in.toTerm(y, w)
	ts := in.ts
	switch op {
	case token.ADD:
		return norm(ts.Bin(OpAdd, a, b))
	case token.SUB:
		return norm(ts.Bin(OpSub, a, b))
	case token.MUL:
		return norm(ts.Bin(OpMul, a, b))
	case token.QUO, token.REM:
		z := ts.Eq(b, ts.Const(w, 0))
		if !z.IsConst() || z.k == 1 {
			if in.decide(z, "div0") {
				in.targetPanicStr("runtime error: integer divide by zero")
			}
		}
		switch {
		case signed && op == token.QUO:
			return norm(ts.Bin(OpSDiv, a, b))
		case signed:
			return norm(ts.Bin(OpSRem, a, b))
		case op == token.QUO:
			return norm(ts.Bin(OpUDiv, a, b))
		default:
			return norm(ts.Bin(OpURem, a, b))
		}
	case token.AND:
		return norm(ts.Bin(OpBAnd, a, b))
	case token.OR:
		return norm(ts.Bin(OpBOr, a, b))
	case token.XOR:
		return norm(ts.Bin(OpBXor, a, b))
	case token.AND_NOT:
		return norm(ts.Bin(OpBAnd, a, ts.BNot(b)))
	case token.EQL:
		return norm(ts.Eq(a, b))
	case token.NEQ:
		return norm(ts.Not(ts.Eq(a, b)))
	}
	if signed {
		switch op {
		case token.LSS:
			return norm(ts.Slt(a, b))
		case token.LEQ:
			return norm(ts.Sle(a, b))
		case token.GTR:
			return norm(ts.Slt(b, a))
		case token.GEQ:
			return norm(ts.Sle(b, a))
		}
	} else {
		switch op {
		case token.LSS:
			return norm(ts.Ult(a, b))
		case token.LEQ:
			return norm(ts.Ule(a, b))
		case token.GTR:
			return norm(ts.Ult(b, a))
		case token.GEQ:
			return norm(ts.Ule(b, a))
		}
	}
	panic(in.unsupported("int binop %v", op))
}

func (in *Interp) strEq(x, y str) value {
	if len(x.s) != len(y.s) {
		return false
	}
	if x.sym == nil && y.sym == nil {
		return x.s == y.s
	}
	ts := in.ts
	acc := ts.True
	for i := range x.s {
		xs := x.sym != nil && x.sym[i] != nil
		ys := y.sym != nil && y.sym[i] != nil
		if !xs && !ys {
			if x.s[i] != y.s[i] {
				return false
			}
			continue
		}
		e := ts.Eq(in.toTerm(x.at(i), 8), in.toTerm(y.at(i), 8))
		if e.IsConst() && e.k == 0 {
			return false
		}
		acc = ts.And(acc, e)
	}
	return norm(acc)
}

// strLess builds x < y (lexicographic) ; orEq => x <= y
func (in *Interp) strLess(x, y str, orEq bool) value {
	if x.sym == nil && y.sym == nil {
		if orEq {
			return x.s <= y.s
		}
		return x.s < y.s
	}
	ts := in.ts
	n := min(len(x.s), len(y.s))
	var tail *Term
	// all n bytes equal: decided by length
	if orEq {
		tail = ts.Bool(len(x.s) <= len(y.s))
	} else {
		tail = ts.Bool(len(x.s) < len(y.s))
	}
	for i := n - 1; i >= 0; i-- {
		a, b := in.toTerm(x.at(i), 8), in.toTerm(y.at(i), 8)
		tail = ts.Ite(ts.Ult(a, b), ts.True, ts.Ite(ts.Eq(a, b), tail, ts.False))
	}
	return norm(tail)
}

func (in *Interp) strBinop(op token.Token, x, y str) value {
	switch op {
	case token.ADD:
		in.alloc += int64(len(x.s) + len(y.s))
		return strConcat(x, y)
	case token.EQL:
		return in.strEq(x, y)
	case token.NEQ:
		return in.notv(in.strEq(x, y))
	case token.LSS:
		return in.strLess(x, y, false)
	case token.LEQ:
		return in.strLess(x, y, true)
	case token.GTR:
		return in.strLess(y, x, false)
	case token.GEQ:
		return in.strLess(y, x, true)
	}
	panic(in.unsupported("string binop %v", op))
}

// equals implements == for non-basic comparable types.
func (in *Interp) equals(t types.Type, x, y value) value {
	switch ut := t.Underlying().(type) {
	case *types.Basic:
		if w, signed, ok := intWidth(t); ok {
			return in.intBinop(token.EQL, w, signed, nil, x, y)
		}
		if ut.Info()&types.IsString != 0 {
			return in.strEq(x.(str), y.(str))
		}
		if ut.Info()&types.IsBoolean != 0 {
			return in.boolBinop(token.EQL, x, y)
		}
		if ut.Kind() == types.UnsafePointer {
			return x == y
		}
		return x == y
	case *types.Pointer:
		xs, xok := x.(*symPtr)
		ys, yok := y.(*symPtr)
		if xok || yok {
			if xok && yok && xs == ys {
				return true
			}
			panic(in.unsupported("comparison of symbolic pointers"))
		}
		return x == y
	case *types.Chan, *types.Map, *types.Signature, *types.Slice:
		// only comparisons against nil are legal (or chan identity)
		xn, yn := isNilValue(x), isNilValue(y)
		if xn || yn {
			return xn == yn
		}
		switch x := x.(type) {
		case *chanV:
			return x == y.(*chanV)
		case *omap:
			return x == y.(*omap)
		}
		return false
	case *types.Interface:
		xi, yi := x.(iface), y.(iface)
		if xi.t == nil || yi.t == nil {
			return xi.t == nil && yi.t == nil
		}
		if !types.Identical(xi.t, yi.t) {
			return false
		}
		if !types.Comparable(xi.t) {
			in.targetPanicStr("runtime error: comparing uncomparable type " + xi.t.String())
		}
		return in.equals(xi.t, xi.v, yi.v)
	case *types.Struct:
		xs, ys := x.(structV), y.(structV)
		var acc value = true
		for i := 0; i < ut.NumFields(); i++ {
			if ut.Field(i).Name() == "_" {
				continue
			}
			e := in.equals(ut.Field(i).Type(), xs[i], ys[i])
			acc = in.andv(acc, e)
			if b, ok := acc.(bool); ok && !b {
				return false
			}
		}
		return acc
	case *types.Array:
		xs, ys := x.(arrayV), y.(arrayV)
		var acc value = true
		for i := range xs {
			e := in.equals(ut.Elem(), xs[i], ys[i])
			acc = in.andv(acc, e)
			if b, ok := acc.(bool); ok && !b {
				return false
			}
		}
		return acc
	}
	panic(in.unsupported("equals on %v", t))
}

func (in *Interp) andv(a, b value) value {
	ab, aok := a.(bool)
	bb, bok := b.(bool)
	if aok && bok {
		return ab && bb
	}
	return norm(in.ts.And(in.boolTerm(a), in.boolTerm(b)))
}

func (in *Interp) orv(a, b value) value {
	ab, aok := a.(bool)
	bb, bok := b.(bool)
	if aok && bok {
		return ab || bb
	}
	return norm(in.ts.Or(in.boolTerm(a), in.boolTerm(b)))
}

// ---------- unop ----------

func (in *Interp) unop(instr *ssa.UnOp, x value) value {
	switch instr.Op {
	case token.MUL: // load
		return in.load(x)
	case token.ARROW:
		return in.chanRecv(x.(*chanV), instr.CommaOk, instr.X.Type().Underlying().(*types.Chan).Elem())
	case token.NOT:
		return in.notv(x)
	case token.SUB:
		switch x := x.(type) {
		case float64:
			return -x
		case float32:
			return -x
		}
		w, _, _ := intWidth(instr.Type())
		switch x := x.(type) {
		case uint64:
			return (-x) & mask(w)
		case *Term:
			return norm(in.ts.Neg(x))
		}
	case token.XOR:
		w, _, _ := intWidth(instr.Type())
		switch x := x.(type) {
		case uint64:
			return (^x) & mask(w)
		case *Term:
			return norm(in.ts.BNot(x))
		}
	}
	panic(in.unsupported("unop %v on %T", instr.Op, x))
}

func (in *Interp) load(p value) value {
	switch p := p.(type) {
	case *value:
		if p == nil {
			in.targetPanicStr("runtime error: invalid memory address or nil pointer dereference")
		}
		return copyVal(*p)
	case *symPtr:
		return in.selectFrom(p.base, p.idx, p.w)
	}
	panic(in.unsupported("load from %T", p))
}

// symSelect builds the value of get(i) for i = idx (already known to be in range 0..n-1 on this path).
// If idx depends on a single small variable, the chain is keyed on that variable's feasible values.
func (in *Interp) symSelect(get func(i int) value, n int, idx *Term, w uint8) value {
	ts := in.ts
	type ent struct {
		cond *Term
		v    value
	}
	var ents []ent
	if v := idx.sup; v != nil && v != multiSup && v.w <= 8 && v.w > 0 {
		d := in.domOf(v)
		for val := uint64(0); val <= mask(v.w); val++ {
			if d[val>>6]&(1<<(val&63)) == 0 {
				continue
			}
			i := ts.EvalWith(idx, v, val)
			if i >= uint64(n) {
				continue // excluded by the path condition
			}
			ents = append(ents, ent{ts.Eq(v, ts.Const(v.w, val)), get(int(i))})
		}
	} else {
		lo, hi := idx.lo, idx.hi
		if hi >= uint64(n) {
			hi = uint64(n) - 1
		}
		tooBig := hi-lo+1 > maxSymIndexSpan
		if !tooBig && in.noFork == 0 {
			// constant table: an ite-chain is cheap. Symbolic cells (e.g. a message buffer indexed by a
			// compression pointer target): fork over the feasible index values instead of nesting chains.
			for i := lo; i <= hi; i++ {
				if _, isT := get(int(i)).(*Term); isT {
					tooBig = true
					break
				}
			}
		}
		if tooBig {
			c := in.concretize(idx, "index")
			return get(int(c))
		}
		for i := lo; i <= hi; i++ {
			ents = append(ents, ent{ts.Eq(idx, ts.Const(idx.w, i)), get(int(i))})
		}
	}
	if len(ents) == 0 {
		panic(pathAbort{"infeasible", "symbolic index has no feasible value"})
	}
	for _, e := range ents {
		switch e.v.(type) {
		case uint64, *Term, bool:
		default:
			panic(in.unsupported("symbolic-index load of non-scalar %T", e.v))
		}
	}
	acc := in.toTerm(ents[len(ents)-1].v, w)
	for i := len(ents) - 2; i >= 0; i-- {
		acc = ts.Ite(ents[i].cond, in.toTerm(ents[i].v, w), acc)
	}
	return norm(acc)
}

func (in *Interp) selectFrom(base []value, idx *Term, w uint8) value {
	return in.symSelect(func(i int) value { return base[i] }, len(base), idx, w)
}

// ---------- conversions ----------

func (in *Interp) conv(tDst, tSrc types.Type, x value) value {
	utSrc := tSrc.Underlying()
	utDst := tDst.Underlying()

	switch utSrc.(type) {
	case *types.Pointer, *types.Chan, *types.Map, *types.Signature, *types.Struct, *types.Array, *types.Interface:
		return x
	}
	if b, ok := utSrc.(*types.Basic); ok && b.Kind() == types.UnsafePointer {
		return x
	}
	if b, ok := utDst.(*types.Basic); ok && b.Kind() == types.UnsafePointer {
		return x
	}
	if _, ok := utSrc.(*types.Slice); ok {
		// []byte/[]rune -> string, or slice -> slice of same underlying
		if isString(tDst) {
			xs := x.([]value)
			elem := utSrc.(*types.Slice).Elem().Underlying().(*types.Basic)
			if elem.Kind() == types.Uint8 {
				in.alloc += int64(len(xs))
				return strFromBytes(xs)
			}
			// []rune
			var rs []rune
			for _, r := range xs {
				c, ok := r.(uint64)
				if !ok {
					panic(in.unsupported("string([]rune) with symbolic rune"))
				}
				rs = append(rs, rune(sext(c, 32)))
			}
			return mkstr(string(rs))
		}
		return x
	}
	if isString(tSrc) {
		s := x.(str)
		if isString(tDst) {
			return x
		}
		if sl, ok := utDst.(*types.Slice); ok {
			elem := sl.Elem().Underlying().(*types.Basic)
			if elem.Kind() == types.Uint8 {
				in.alloc += int64(len(s.s))
				return s.bytes()
			}
			if !s.concrete() {
				panic(in.unsupported("[]rune(symbolic string)"))
			}
			var r []value
			for _, c := range s.s {
				r = append(r, uint64(uint32(c)))
			}
			return r
		}
	}
	sw, ssigned, sIsInt := intWidth(tSrc)
	dw, _, dIsInt := intWidth(tDst)
	if sIsInt && dIsInt {
		switch x := x.(type) {
		case uint64:
			if ssigned {
				return uint64(sext(x, sw)) & mask(dw)
			}
			return x & mask(dw)
		case *Term:
			if dw <= sw {
				return norm(in.ts.Extract(x, 0, dw))
			}
			if ssigned {
				return norm(in.ts.SExt(x, dw))
			}
			return norm(in.ts.ZExt(x, dw))
		}
	}
	if sIsInt && isString(tDst) {
		c, ok := x.(uint64)
		if !ok {
			panic(in.unsupported("string(symbolic int)"))
		}
		var r rune
		if ssigned {
			r = rune(sext(c, sw))
			if int64(r) != sext(c, sw) {
				r = utf8.RuneError
			}
		} else {
			r = rune(c)
			if uint64(r) != c {
				r = utf8.RuneError
			}
		}
		return mkstr(string(r))
	}
	// floats
	bd, _ := utDst.(*types.Basic)
	bs, _ := utSrc.(*types.Basic)
	if bd != nil && bs != nil {
		if bs.Info()&types.IsFloat != 0 {
			var f float64
			switch x := x.(type) {
			case float64:
				f = x
			case float32:
				f = float64(x)
			}
			switch {
			case bd.Kind() == types.Float64:
				return f
			case bd.Kind() == types.Float32:
				return float32(f)
			case dIsInt:
				_, dsigned, _ := intWidth(tDst)
				if dsigned {
					return uint64(int64(f)) & mask(dw)
				}
				if f < 0 {
					return uint64(int64(f)) & mask(dw)
				}
				return uint64(f) & mask(dw)
			}
		}
		if sIsInt && bd.Info()&types.IsFloat != 0 {
			c, ok := x.(uint64)
			if !ok {
				panic(in.unsupported("float(symbolic int)"))
			}
			var f float64
			if ssigned {
				f = float64(sext(c, sw))
			} else {
				f = float64(c)
			}
			if bd.Kind() == types.Float32 {
				return float32(f)
			}
			return f
		}
	}
	panic(in.unsupported("conversion %v -> %v", tSrc, tDst))
}

var _ = math.Abs
