package main

// If-conversion of side-effect-free regions: at a symbolic If whose arms rejoin at the
// immediate post-dominator J (or all end in Return), every path through the region is
// evaluated speculatively and J's phis (or the results) become ite-terms. Any need to
// fork, any side effect or any panic inside the region aborts the merge and the If is
// handled by ordinary forking.

import (
	"fmt"
	"os"
	"go/types"
	"sync"

	"golang.org/x/tools/go/ssa"
)

type mergeRegion struct{}

type pdomInfo struct {
	once  sync.Once
	ipdom []int // per block: index of immediate post-dominator, -1 = function exit
}

var pdomCache sync.Map // *ssa.Function -> *pdomInfo

func ipdomOf(fn *ssa.Function) []int {
	v, _ := pdomCache.LoadOrStore(fn, &pdomInfo{})
	pi := v.(*pdomInfo)
	pi.once.Do(func() { pi.ipdom = computeIpdom(fn) })
	return pi.ipdom
}

func computeIpdom(fn *ssa.Function) []int {
	n := len(fn.Blocks)
	words := (n + 1 + 63) / 64
	exit := n
	full := make([]uint64, words)
	for i := 0; i <= n; i++ {
		full[i>>6] |= 1 << (uint(i) & 63)
	}
	pd := make([][]uint64, n+1)
	for i := 0; i <= n; i++ {
		pd[i] = make([]uint64, words)
		copy(pd[i], full)
	}
	for i := range pd[exit] {
		pd[exit][i] = 0
	}
	pd[exit][exit>>6] |= 1 << (uint(exit) & 63)
	succs := func(b *ssa.BasicBlock) []int {
		if len(b.Succs) == 0 {
			return []int{exit}
		}
		r := make([]int, len(b.Succs))
		for i, s := range b.Succs {
			r[i] = s.Index
		}
		return r
	}
	changed := true
	tmp := make([]uint64, words)
	for changed {
		changed = false
		for bi := n - 1; bi >= 0; bi-- {
			b := fn.Blocks[bi]
			copy(tmp, full)
			for _, s := range succs(b) {
				for w := range tmp {
					tmp[w] &= pd[s][w]
				}
			}
			tmp[bi>>6] |= 1 << (uint(bi) & 63)
			for w := range tmp {
				if tmp[w] != pd[bi][w] {
					changed = true
					pd[bi][w] = tmp[w]
				}
			}
		}
	}
	popcnt := func(s []uint64) int {
		c := 0
		for _, w := range s {
			for ; w != 0; w &= w - 1 {
				c++
			}
		}
		return c
	}
	ip := make([]int, n)
	for bi := 0; bi < n; bi++ {
		best, bestCnt := -1, -1
		for p := 0; p < n; p++ {
			if p == bi || pd[bi][p>>6]&(1<<(uint(p)&63)) == 0 {
				continue
			}
			if c := popcnt(pd[p]); c > bestCnt {
				best, bestCnt = p, c
			}
		}
		ip[bi] = best
	}
	return ip
}

type mergeArm struct {
	cond *Term
	vals []value
}

const (
	maxMergeArms   = 96
	maxMergeBlocks = 400
)

type mergeCtx struct {
	fr      *frame
	join    int // block index or -1
	arms    []mergeArm
	onStack map[int]bool
	nblocks int
	start   *ssa.BasicBlock
}

// returns 0 = not merged, 1 = merged & jumped to join block, 2 = merged & function returned
func (in *Interp) tryMergeIf(fr *frame, instr *ssa.If, c *Term) int {
	if in.cfg.Concrete != nil || in.noMerge || os.Getenv("SYMGO_NOMERGE") != "" {
		return 0
	}
	if in.mergeFail == nil {
		in.mergeFail = map[*ssa.If]int{}
	}
	if in.mergeFail[instr] >= 2 {
		return 0
	}
	ip := ipdomOf(fr.fn)
	join := ip[fr.block.Index]
	if join == -1 && (fr.defers != nil || fr.fn.Recover != nil) {
		return 0
	}
	mc := &mergeCtx{fr: fr, join: join, onStack: map[int]bool{fr.block.Index: true}, start: fr.block}
	saveEnv := append([]value(nil), fr.env...)
	ok := func() (ok bool) {
		in.noFork++
		saveFrame := in.curFrame
		defer func() {
			in.noFork--
			in.curFrame = saveFrame
			if r := recover(); r != nil {
				switch r := r.(type) {
				case mergeAbort, targetPanic:
					ok = false
				case pathAbort:
					if r.kind == "budget" {
						panic(r)
					}
					ok = false
				default:
					panic(r)
				}
			}
		}()
		b := fr.block
		in.mergeExplore(mc, b.Succs[0], b, c)
		in.mergeExplore(mc, b.Succs[1], b, in.ts.Not(c))
		return true
	}()
	if !ok || len(mc.arms) == 0 {
		in.mergeFail[instr]++
		copy(fr.env, saveEnv)
		return 0
	}
	if os.Getenv("SYMGO_CHECKMERGE") != "" {
		nt := 0
		for _, a := range mc.arms {
			if in.ts.Eval(a.cond) != 0 {
				nt++
			}
		}
		if nt != 1 {
			fmt.Fprintf(os.Stderr, "MERGE BUG: %d arms true at %s in %s (arms=%d)\n", nt, in.P.prog.Fset.Position(instr.Pos()), fr.fn, len(mc.arms))
			for _, a := range mc.arms {
				fmt.Fprintf(os.Stderr, "   arm %v = %d\n", a.cond, in.ts.Eval(a.cond))
			}
		}
	}
	// merge values
	nvals := len(mc.arms[0].vals)
	merged := make([]value, nvals)
	var typs []types.Type
	if join >= 0 {
		jb := fr.fn.Blocks[join]
		for _, ins := range jb.Instrs[:fr.fi.firstNP[join]] {
			typs = append(typs, ins.(*ssa.Phi).Type())
		}
	} else {
		res := fr.fn.Signature.Results()
		for i := 0; i < res.Len(); i++ {
			typs = append(typs, res.At(i).Type())
		}
	}
	for k := 0; k < nvals; k++ {
		v, ok := in.mergeValues(mc.arms, k, typs[k])
		if !ok {
			in.mergeFail[instr]++
			return 0
		}
		merged[k] = v
	}
	in.stats.Merges++
	if os.Getenv("SYMGO_MERGELOG") != "" {
		fmt.Fprintf(os.Stderr, "MERGE at %s in %s join=%d arms=%d\n", in.P.prog.Fset.Position(instr.Pos()), fr.fn, join, len(mc.arms))
		for _, a := range mc.arms {
			fmt.Fprintf(os.Stderr, "   arm %v [%d] -> %s\n", a.cond, in.ts.Eval(a.cond), toDebug(a.vals))
		}
		fmt.Fprintf(os.Stderr, "   merged %s\n", toDebug(merged))
	}
	if join >= 0 {
		jb := fr.fn.Blocks[join]
		for k, ins := range jb.Instrs[:fr.fi.firstNP[join]] {
			fr.set(ins.(*ssa.Phi), merged[k])
		}
		fr.prevBlock, fr.block = fr.block, jb
		fr.skipPhis = true
		return 1
	}
	switch nvals {
	case 0:
		fr.result = nil
	case 1:
		fr.result = merged[0]
	default:
		fr.result = tuple(merged)
	}
	fr.block = nil
	return 2
}

func (in *Interp) mergeValues(arms []mergeArm, k int, t types.Type) (value, bool) {
	same := true
	first := arms[0].vals[k]
	for _, a := range arms[1:] {
		if !shallowSame(a.vals[k], first) {
			same = false
			break
		}
	}
	if same {
		return first, true
	}
	ts := in.ts
	if w, ok := scalarElem(t); ok {
		for _, a := range arms {
			switch a.vals[k].(type) {
			case uint64, bool, *Term:
			default:
				return nil, false
			}
		}
		acc := in.toTerm(arms[len(arms)-1].vals[k], w)
		for i := len(arms) - 2; i >= 0; i-- {
			acc = ts.Ite(arms[i].cond, in.toTerm(arms[i].vals[k], w), acc)
		}
		return norm(acc), true
	}
	if isString(t) {
		n := -1
		for _, a := range arms {
			s, ok := a.vals[k].(str)
			if !ok {
				return nil, false
			}
			if n >= 0 && len(s.s) != n {
				return nil, false
			}
			n = len(s.s)
		}
		bs := make([]value, n)
		for j := 0; j < n; j++ {
			acc := in.toTerm(arms[len(arms)-1].vals[k].(str).at(j), 8)
			for i := len(arms) - 2; i >= 0; i-- {
				acc = ts.Ite(arms[i].cond, in.toTerm(arms[i].vals[k].(str).at(j), 8), acc)
			}
			bs[j] = norm(acc)
		}
		return strFromBytes(bs), true
	}
	return nil, false
}

func shallowSame(a, b value) (r bool) {
	defer func() {
		if recover() != nil {
			r = false
		}
	}()
	switch a := a.(type) {
	case str:
		bs, ok := b.(str)
		if !ok || a.s != bs.s || (a.sym == nil) != (bs.sym == nil) {
			return false
		}
		for i := range a.sym {
			if a.sym[i] != bs.sym[i] {
				return false
			}
		}
		return true
	case []value:
		bv, ok := b.([]value)
		if !ok {
			return false
		}
		if len(a) != len(bv) || cap(a) != cap(bv) {
			return false
		}
		if len(a) == 0 {
			return (a == nil) == (bv == nil)
		}
		return &a[0] == &bv[0]
	case structV, arrayV, tuple:
		return false
	case iface:
		bi, ok := b.(iface)
		if !ok {
			return false
		}
		if a.t == nil || bi.t == nil {
			return a.t == nil && bi.t == nil
		}
		return types.Identical(a.t, bi.t) && shallowSame(a.v, bi.v)
	}
	return a == b
}

func (in *Interp) mergeExplore(mc *mergeCtx, b, from *ssa.BasicBlock, cond *Term) {
	fr := mc.fr
	if cond.IsConst() && cond.k == 0 {
		return
	}
	if b.Index == mc.join {
		// evaluate the phi edges coming from 'from'
		pi := -1
		for i, p := range b.Preds {
			if p == from {
				pi = i
				break
			}
		}
		nphi := fr.fi.firstNP[b.Index]
		vals := make([]value, nphi)
		for k, ins := range b.Instrs[:nphi] {
			vals[k] = fr.get(ins.(*ssa.Phi).Edges[pi])
		}
		mc.arms = append(mc.arms, mergeArm{cond, vals})
		if len(mc.arms) > maxMergeArms {
			panic(mergeAbort{})
		}
		return
	}
	if mc.onStack[b.Index] || b.Dominates(mc.start) {
		panic(mergeAbort{}) // loop / back edge to an ancestor whose values are live
	}
	mc.nblocks++
	if mc.nblocks > maxMergeBlocks {
		panic(mergeAbort{})
	}
	mc.onStack[b.Index] = true
	defer delete(mc.onStack, b.Index)
	// phis
	nphi := fr.fi.firstNP[b.Index]
	if nphi > 0 {
		pi := -1
		for i, p := range b.Preds {
			if p == from {
				pi = i
				break
			}
		}
		tmp := make([]value, nphi)
		for k, ins := range b.Instrs[:nphi] {
			tmp[k] = fr.get(ins.(*ssa.Phi).Edges[pi])
		}
		for k, ins := range b.Instrs[:nphi] {
			fr.set(ins.(*ssa.Phi), tmp[k])
		}
	}
	for _, ins := range b.Instrs[nphi:] {
		switch ins := ins.(type) {
		case *ssa.If:
			in.steps++
			switch cv := fr.get(ins.Cond).(type) {
			case bool:
				if cv {
					in.mergeExplore(mc, b.Succs[0], b, cond)
				} else {
					in.mergeExplore(mc, b.Succs[1], b, cond)
				}
			case *Term:
				in.mergeExplore(mc, b.Succs[0], b, in.ts.And(cond, cv))
				in.mergeExplore(mc, b.Succs[1], b, in.ts.And(cond, in.ts.Not(cv)))
			}
			return
		case *ssa.Jump:
			in.steps++
			in.mergeExplore(mc, b.Succs[0], b, cond)
			return
		case *ssa.Return:
			if mc.join != -1 {
				panic(mergeAbort{})
			}
			vals := make([]value, len(ins.Results))
			for i, r := range ins.Results {
				vals[i] = fr.get(r)
			}
			mc.arms = append(mc.arms, mergeArm{cond, vals})
			if len(mc.arms) > maxMergeArms {
				panic(mergeAbort{})
			}
			return
		case *ssa.Store, *ssa.MapUpdate, *ssa.Send, *ssa.Go, *ssa.Defer, *ssa.RunDefers, *ssa.Panic, *ssa.Select, *ssa.MakeChan, *ssa.Next, *ssa.Range:
			panic(mergeAbort{})
		default:
			in.curFrame = fr
			in.visitInstr(fr, ins)
		}
	}
}

func (in *Interp) tryMerge(fr *frame, instr *ssa.If, c *Term) (value, bool) { return nil, false }

func (in *Interp) classifyPure(fn *ssa.Function, fi *fnInfo) { fi.pure = -1 }

func (in *Interp) mergeCall(caller *frame, fn *ssa.Function, fi *fnInfo, args []value) (value, bool) {
	return nil, false
}
