package main

import (
	"fmt"
	"go/token"
	"go/types"
	"math"
	"strings"

	"golang.org/x/tools/go/ssa"
)

const (
	tokLSS = token.LSS
	tokGTR = token.GTR
)

type externFn func(in *Interp, fr *frame, args []value) value

var externals = map[string]externFn{}

const dnsPath = "github.com/miekg/dns"

func init() {
	ext := externals
	// ---- runtime / internal ----
	nop := func(in *Interp, fr *frame, args []value) value { return nil }
	for _, n := range []string{
		"runtime.KeepAlive", "runtime.SetFinalizer", "runtime.GC", "runtime.Gosched", "runtime.LockOSThread", "runtime.UnlockOSThread",
		"internal/race.Acquire", "internal/race.Release", "internal/race.ReleaseMerge", "internal/race.Disable", "internal/race.Enable",
		"internal/race.Read", "internal/race.Write", "internal/race.ReadRange", "internal/race.WriteRange",
		"internal/godebug.registerMetric", "internal/godebug.setUpdate", "internal/godebug.setNewIncNonDefault",
		"(*internal/godebug.Setting).IncNonDefault", "runtime.SetCPUProfileRate", "os.runtime_args", "runtime.procPin", "runtime.procUnpin",
		"internal/runtime/sys.Prefetch", "sync.runtime_registerPoolCleanup", "sync.runtime_notifyListCheck", "sync.throw", "sync.fatal",
		"time.Sleep",
	} {
		ext[n] = nop
	}
	ext["(*sync.Mutex).TryLock"] = func(in *Interp, fr *frame, args []value) value { return true }
	// sync.Pool, adversarial model: a []byte handed to Put is overwritten with fresh symbolic octets (whoever gets it
	// next may write anything into it, at any time) and is the next buffer Get returns (LIFO reuse).
	ext["(*sync.Pool).Put"] = func(in *Interp, fr *frame, args []value) value {
		it, ok := args[1].(iface)
		if !ok {
			return nil
		}
		b, isBytes := it.v.([]value)
		if !isBytes || len(b) == 0 || in.inInit {
			return nil
		}
		if _, isOctet := b[0].(uint64); !isOctet {
			if _, isT := b[0].(*Term); !isT {
				return nil
			}
		}
		in.uniq++
		id := in.uniq
		if in.cfg.Concrete == nil {
			in.stubs["sync.Pool.Put overwrites the buffer with arbitrary octets"]++
			for i := range b {
				in.store(&b[i], in.freshVar(fmt.Sprintf("pool%d.%d", id, i), 8))
			}
		}
		m, _ := in.natives["pools"].(map[*value][]value)
		if m == nil {
			m = map[*value][]value{}
			in.natives["pools"] = m
		}
		key := args[0].(*value)
		m[key] = append(m[key], it)
		return nil
	}
	ext["(*sync.Pool).Get"] = func(in *Interp, fr *frame, args []value) value {
		p := args[0].(*value)
		if m, _ := in.natives["pools"].(map[*value][]value); m != nil {
			if l := m[p]; len(l) > 0 {
				it := l[len(l)-1]
				m[p] = l[:len(l)-1]
				return it
			}
		}
		st := (*p).(structV)
		// field "New" is the last field of sync.Pool
		newFn := st[len(st)-1]
		if isNilValue(newFn) {
			return iface{}
		}
		return in.call(fr, newFn, nil, nil)
	}
	ext["(*internal/godebug.Setting).Value"] = func(in *Interp, fr *frame, args []value) value { return mkstr("") }
	ext["internal/godebug.New"] = nil
	delete(ext, "internal/godebug.New")
	ext["runtime.GOMAXPROCS"] = func(in *Interp, fr *frame, args []value) value { return uint64(1) }
	ext["runtime.NumCPU"] = func(in *Interp, fr *frame, args []value) value { return uint64(1) }
	ext["internal/abi.NoEscape"] = func(in *Interp, fr *frame, args []value) value { return args[0] }
	ext["internal/abi.Escape[T any]"] = func(in *Interp, fr *frame, args []value) value { return args[0] }
	ext["internal/bytealg.MakeNoZero"] = func(in *Interp, fr *frame, args []value) value {
		var n int
		switch a := args[0].(type) {
		case uint64:
			n = int(a)
		case *Term:
			n = int(in.concretize(a, "makenozero"))
		}
		if n < 0 || n > 1<<26 {
			panic(pathAbort{"budget", fmt.Sprintf("MakeNoZero of %d bytes", n)})
		}
		s := make([]value, n)
		for i := range s {
			s[i] = uint64(0)
		}
		in.alloc += int64(n)
		return s
	}
	ext["internal/bytealg.IndexByteString"] = func(in *Interp, fr *frame, args []value) value {
		return in.indexByte(args[0].(str).bytesLazy(), args[1])
	}
	ext["internal/bytealg.IndexByte"] = func(in *Interp, fr *frame, args []value) value {
		return in.indexByte(args[0].([]value), args[1])
	}
	ext["internal/bytealg.CountString"] = func(in *Interp, fr *frame, args []value) value {
		return in.countByte(args[0].(str).bytesLazy(), args[1])
	}
	ext["internal/bytealg.Count"] = func(in *Interp, fr *frame, args []value) value {
		return in.countByte(args[0].([]value), args[1])
	}
	ext["internal/bytealg.Equal"] = func(in *Interp, fr *frame, args []value) value {
		return in.strEq(strFromBytes(args[0].([]value)), strFromBytes(args[1].([]value)))
	}
	ext["bytes.Equal"] = ext["internal/bytealg.Equal"]
	ext["internal/bytealg.Compare"] = func(in *Interp, fr *frame, args []value) value {
		return in.compareStr(strFromBytes(args[0].([]value)), strFromBytes(args[1].([]value)))
	}
	ext["bytes.Compare"] = ext["internal/bytealg.Compare"]
	ext["internal/bytealg.CompareString"] = func(in *Interp, fr *frame, args []value) value {
		return in.compareStr(args[0].(str), args[1].(str))
	}
	ext["strings.Compare"] = ext["internal/bytealg.CompareString"]
	ext["internal/stringslite.Index"] = extStringsIndex
	ext["strings.Index"] = extStringsIndex
	ext["internal/bytealg.IndexString"] = extStringsIndex
	ext["internal/cpu.Initialize"] = nop
	ext["internal/cpu.doinit"] = nop

	// ---- sync/atomic ----
	for _, ty := range []string{"Int32", "Int64", "Uint32", "Uint64", "Uintptr", "Pointer"} {
		ty := ty
		w := uint8(64)
		if strings.HasSuffix(ty, "32") {
			w = 32
		}
		for _, pk := range []string{"sync/atomic.", "internal/runtime/atomic."} {
			ext[pk+"Load"+ty] = func(in *Interp, fr *frame, args []value) value { return in.load(args[0]) }
			ext[pk+"Store"+ty] = func(in *Interp, fr *frame, args []value) value { in.storeVal(args[0], args[1]); return nil }
			ext[pk+"Swap"+ty] = func(in *Interp, fr *frame, args []value) value {
				old := in.load(args[0])
				in.storeVal(args[0], args[1])
				return old
			}
			ext[pk+"CompareAndSwap"+ty] = func(in *Interp, fr *frame, args []value) value {
				old := in.load(args[0])
				if old == args[1] {
					in.storeVal(args[0], args[2])
					return true
				}
				if _, isT := old.(*Term); isT {
					panic(in.unsupported("CAS on symbolic cell"))
				}
				return false
			}
			if ty != "Pointer" {
				ext[pk+"Add"+ty] = func(in *Interp, fr *frame, args []value) value {
					old := in.load(args[0])
					nv := (old.(uint64) + args[1].(uint64)) & mask(w)
					in.storeVal(args[0], nv)
					return nv
				}
				ext[pk+"And"+ty] = func(in *Interp, fr *frame, args []value) value {
					old := in.load(args[0])
					in.storeVal(args[0], old.(uint64)&args[1].(uint64))
					return old
				}
				ext[pk+"Or"+ty] = func(in *Interp, fr *frame, args []value) value {
					old := in.load(args[0])
					in.storeVal(args[0], old.(uint64)|args[1].(uint64))
					return old
				}
			}
		}
	}
	ext["internal/runtime/atomic.Load"] = ext["sync/atomic.LoadUint32"]
	ext["internal/runtime/atomic.Store"] = ext["sync/atomic.StoreUint32"]

	// ---- math ----
	ext["math.Float64bits"] = func(in *Interp, fr *frame, args []value) value { return math.Float64bits(args[0].(float64)) }
	ext["math.Float64frombits"] = func(in *Interp, fr *frame, args []value) value { return math.Float64frombits(args[0].(uint64)) }
	ext["math.Float32bits"] = func(in *Interp, fr *frame, args []value) value { return uint64(math.Float32bits(args[0].(float32))) }
	ext["math.Float32frombits"] = func(in *Interp, fr *frame, args []value) value {
		return math.Float32frombits(uint32(args[0].(uint64)))
	}
	f1 := func(f func(float64) float64) externFn {
		return func(in *Interp, fr *frame, args []value) value { return f(args[0].(float64)) }
	}
	ext["math.Abs"] = f1(math.Abs)
	ext["math.Floor"] = f1(math.Floor)
	ext["math.Ceil"] = f1(math.Ceil)
	ext["math.Trunc"] = f1(math.Trunc)
	ext["math.Sqrt"] = f1(math.Sqrt)
	ext["math.Log"] = f1(math.Log)
	ext["math.Log10"] = f1(math.Log10)
	ext["math.Exp"] = f1(math.Exp)
	ext["math.Round"] = f1(math.Round)
	ext["math.Pow"] = func(in *Interp, fr *frame, args []value) value {
		return math.Pow(args[0].(float64), args[1].(float64))
	}
	ext["math.Mod"] = func(in *Interp, fr *frame, args []value) value {
		return math.Mod(args[0].(float64), args[1].(float64))
	}
	ext["math.Inf"] = func(in *Interp, fr *frame, args []value) value { return math.Inf(int(asInt(args[0]))) }
	ext["math.NaN"] = func(in *Interp, fr *frame, args []value) value { return math.NaN() }
	ext["math.IsNaN"] = func(in *Interp, fr *frame, args []value) value { return math.IsNaN(args[0].(float64)) }
	ext["math.IsInf"] = func(in *Interp, fr *frame, args []value) value {
		return math.IsInf(args[0].(float64), int(sext(args[1].(uint64), 64)))
	}

	// ---- sort ----
	ext["sort.Slice"] = extSortSlice
	ext["sort.SliceStable"] = extSortSlice

	// ---- errors ----
	ext["errors.Is"] = func(in *Interp, fr *frame, args []value) value {
		return in.errorsIs(fr, args[0].(iface), args[1].(iface))
	}

	// ---- fmt ----
	ext["fmt.Sprintf"] = func(in *Interp, fr *frame, args []value) value {
		return in.sprintf(fr, args[0].(str), args[1].([]value))
	}
	ext["fmt.Errorf"] = func(in *Interp, fr *frame, args []value) value {
		s := in.sprintfLenient(fr, args[0].(str), args[1].([]value))
		return in.newError(s)
	}
	ext["fmt.Sprint"] = func(in *Interp, fr *frame, args []value) value {
		var parts []str
		for _, a := range args[0].([]value) {
			parts = append(parts, in.fmtValue(fr, 'v', "", a.(iface)))
		}
		r := str{}
		for _, p := range parts {
			r = strConcat(r, p)
		}
		return r
	}
	ext["fmt.Fprintf"] = func(in *Interp, fr *frame, args []value) value {
		s := in.sprintf(fr, args[1].(str), args[2].([]value))
		w := args[0].(iface)
		return in.writeTo(fr, w, s)
	}
	ext["fmt.Println"] = func(in *Interp, fr *frame, args []value) value { return tuple{uint64(0), iface{}} }
	ext["fmt.Printf"] = func(in *Interp, fr *frame, args []value) value { return tuple{uint64(0), iface{}} }
	ext["log.Printf"] = nop
	ext["log.Println"] = nop
	ext["log.Print"] = nop

	// ---- time ----
	ext["time.Now"] = func(in *Interp, fr *frame, args []value) value {
		in.stubs["time.Now"]++
		sec := in.nowValue()
		// Time{wall:0, ext: sec + unixToInternal, loc: nil}
		const unixToInternal = (1969*365 + 1969/4 - 1969/100 + 1969/400) * 86400
		var extv value
		switch s := sec.(type) {
		case uint64:
			extv = s + uint64(unixToInternal)
		case *Term:
			extv = norm(in.ts.Bin(OpAdd, s, in.ts.Const(64, uint64(unixToInternal))))
		}
		return structV{uint64(0), extv, (*value)(nil)}
	}
	ext["time.runtimeNano"] = func(in *Interp, fr *frame, args []value) value { return uint64(1) }
	ext["time.runtimeNow"] = func(in *Interp, fr *frame, args []value) value {
		return tuple{uint64(1700000000), uint64(0), uint64(1)}
	}

	ext["internal/reflectlite.TypeOf"] = func(in *Interp, fr *frame, args []value) value {
		return iface{t: types.Typ[types.UnsafePointer], v: &native{kind: "rtype", obj: args[0]}}
	}
	registerHarnessAPI()
}

// bytesLazy avoids importing strFromBytes round trips
func (s str) bytesLazy() []value { return s.bytes() }

func (in *Interp) indexByte(bs []value, c value) value {
	for i, b := range bs {
		bc, bok := b.(uint64)
		cc, cok := c.(uint64)
		if bok && cok {
			if bc == cc {
				return uint64(i)
			}
			continue
		}
		e := in.ts.Eq(in.toTerm(b, 8), in.toTerm(c, 8))
		if in.decide(e, "indexbyte") {
			return uint64(i)
		}
	}
	return mask(64) // -1
}

func (in *Interp) countByte(bs []value, c value) value {
	var n uint64
	var acc *Term
	for _, b := range bs {
		bc, bok := b.(uint64)
		cc, cok := c.(uint64)
		if bok && cok {
			if bc == cc {
				n++
			}
			continue
		}
		e := in.ts.Eq(in.toTerm(b, 8), in.toTerm(c, 8))
		one := in.ts.Ite(e, in.ts.Const(64, 1), in.ts.Const(64, 0))
		if acc == nil {
			acc = one
		} else {
			acc = in.ts.Bin(OpAdd, acc, one)
		}
	}
	if acc == nil {
		return n
	}
	return norm(in.ts.Bin(OpAdd, acc, in.ts.Const(64, n)))
}

func (in *Interp) compareStr(a, b str) value {
	if a.sym == nil && b.sym == nil {
		return uint64(int64(strings.Compare(a.s, b.s)))
	}
	lt := in.strLess(a, b, false)
	eq := in.strEq(a, b)
	ts := in.ts
	r := ts.Ite(in.boolTerm(lt), ts.Const(64, mask(64)), ts.Ite(in.boolTerm(eq), ts.Const(64, 0), ts.Const(64, 1)))
	return norm(r)
}

func extStringsIndex(in *Interp, fr *frame, args []value) value {
	var s, sub str
	switch a := args[0].(type) {
	case str:
		s = a
		sub = args[1].(str)
	case []value:
		s = strFromBytes(a)
		sub = strFromBytes(args[1].([]value))
	}
	n := len(sub.s)
	for i := 0; i+n <= len(s.s); i++ {
		e := in.strEq(s.slice(i, i+n), sub)
		switch e := e.(type) {
		case bool:
			if e {
				return uint64(i)
			}
		case *Term:
			if in.decide(e, "strings.Index") {
				return uint64(i)
			}
		}
	}
	return mask(64)
}

func extSortSlice(in *Interp, fr *frame, args []value) value {
	x := args[0].(iface).v.([]value)
	less := args[1]
	// insertion sort (stable); comparisons go through the interpreted closure and may fork
	for i := 1; i < len(x); i++ {
		for j := i; j > 0; j-- {
			r := in.call(fr, less, []value{uint64(j), uint64(j - 1)}, nil)
			var lt bool
			switch r := r.(type) {
			case bool:
				lt = r
			case *Term:
				lt = in.decide(r, "sort.less")
			}
			if !lt {
				break
			}
			a, b := copyVal(x[j]), copyVal(x[j-1])
			in.store(&x[j], b)
			in.store(&x[j-1], a)
		}
	}
	return nil
}

func (in *Interp) errorsIs(fr *frame, err, target iface) value {
	for depth := 0; depth < 20; depth++ {
		if err.t == nil {
			return target.t == nil
		}
		if target.t != nil && types.Identical(err.t, target.t) && types.Comparable(err.t) {
			e := in.equals(err.t, err.v, target.v)
			if b, ok := e.(bool); ok && b {
				return true
			}
		}
		if f := in.lookupMethodByName(err.t, "Is"); f != nil {
			r := in.callSSA(fr, f, []value{err.v, target}, nil)
			if b, ok := r.(bool); ok && b {
				return true
			}
		}
		f := in.lookupMethodByName(err.t, "Unwrap")
		if f == nil {
			return false
		}
		r := in.callSSA(fr, f, []value{err.v}, nil)
		next, ok := r.(iface)
		if !ok {
			return false
		}
		err = next
	}
	return false
}

// newError builds an *errors.errorString value.
func (in *Interp) newError(msg str) value {
	pkg := in.P.pkgByPath["errors"]
	t := pkg.Type("errorString").Type()
	var cell value = structV{msg}
	return iface{t: types.NewPointer(t), v: &cell}
}

func (in *Interp) writeTo(fr *frame, w iface, s str) value {
	if w.t == nil {
		in.targetPanicStr("nil writer")
	}
	f := in.lookupMethodByName(w.t, "Write")
	if f == nil {
		panic(in.unsupported("Fprintf to %v", w.t))
	}
	return in.callSSA(fr, f, []value{w.v, s.bytes()}, nil)
}

// ---------- formatting ----------

func (in *Interp) sprintfLenient(fr *frame, format str, args []value) (res str) {
	defer func() {
		if r := recover(); r != nil {
			if pa, ok := r.(pathAbort); ok && pa.kind == "unsupported" {
				res = mkstr("<error text: " + format.s + ">")
				return
			}
			panic(r)
		}
	}()
	return in.sprintf(fr, format, args)
}

func (in *Interp) sprintf(fr *frame, format str, args []value) str {
	if !format.concrete() {
		panic(in.unsupported("symbolic format string"))
	}
	f := format.s
	out := str{}
	argi := 0
	for i := 0; i < len(f); {
		if f[i] != '%' {
			j := i
			for j < len(f) && f[j] != '%' {
				j++
			}
			out = strConcat(out, mkstr(f[i:j]))
			i = j
			continue
		}
		j := i + 1
		for j < len(f) && strings.IndexByte("+-# 0123456789.*", f[j]) >= 0 {
			j++
		}
		if j >= len(f) {
			out = strConcat(out, mkstr("%!(NOVERB)"))
			break
		}
		verb := f[j]
		flags := f[i+1 : j]
		i = j + 1
		if verb == '%' {
			out = strConcat(out, mkstr("%"))
			continue
		}
		if strings.Contains(flags, "*") {
			panic(in.unsupported("%%* in format"))
		}
		if argi >= len(args) {
			out = strConcat(out, mkstr("%!"+string(verb)+"(MISSING)"))
			continue
		}
		a := args[argi].(iface)
		argi++
		out = strConcat(out, in.fmtValue(fr, verb, flags, a))
	}
	return out
}

func (in *Interp) fmtValue(fr *frame, verb byte, flags string, a iface) str {
	spec := "%" + flags + string(verb)
	if a.t == nil {
		return mkstr(fmt.Sprintf(spec, nil))
	}
	// error / Stringer
	if verb == 'v' || verb == 's' || verb == 'q' {
		if _, isBasic := a.t.Underlying().(*types.Basic); !isBasic || types.NewMethodSet(a.t).Len() > 0 {
			for _, mname := range []string{"Error", "String"} {
				if f := in.lookupMethodByName(a.t, mname); f != nil {
					sig := f.Signature
					if sig.Params().Len() == 0 && sig.Results().Len() == 1 && isString(sig.Results().At(0).Type()) {
						r := in.callSSA(fr, f, []value{a.v}, nil)
						s := r.(str)
						if flags == "" && (verb == 'v' || verb == 's') {
							return s
						}
						if s.concrete() {
							return mkstr(fmt.Sprintf(spec, s.s))
						}
						panic(in.unsupported("format %s of symbolic string", spec))
					}
				}
			}
		}
	}
	switch v := a.v.(type) {
	case str:
		if flags == "" && (verb == 's' || verb == 'v') {
			return v
		}
		if v.concrete() {
			return mkstr(fmt.Sprintf(spec, v.s))
		}
		panic(in.unsupported("format %s of symbolic string", spec))
	case bool:
		return mkstr(fmt.Sprintf(spec, v))
	case float64:
		return mkstr(fmt.Sprintf(spec, v))
	case float32:
		return mkstr(fmt.Sprintf(spec, v))
	case uint64:
		w, signed, ok := intWidth(a.t)
		if ok {
			return mkstr(fmt.Sprintf(spec, nativeInt(v, w, signed)))
		}
	case *Term:
		panic(in.unsupported("format %s of symbolic %v", spec, a.t))
	case []value:
		// []byte with %x / %s, []string ...
		if sl, ok := a.t.Underlying().(*types.Slice); ok {
			if b, ok := sl.Elem().Underlying().(*types.Basic); ok && b.Kind() == types.Uint8 {
				s := strFromBytes(v)
				if s.concrete() {
					return mkstr(fmt.Sprintf(spec, []byte(s.s)))
				}
				if verb == 's' && flags == "" {
					return s
				}
				panic(in.unsupported("format %s of symbolic bytes", spec))
			}
			if isString(sl.Elem()) {
				var ss []string
				for _, e := range v {
					es := e.(str)
					if !es.concrete() {
						panic(in.unsupported("format of symbolic []string"))
					}
					ss = append(ss, es.s)
				}
				return mkstr(fmt.Sprintf(spec, ss))
			}
		}
	case *value:
		return mkstr("0xc000000000")
	}
	if verb == 'T' {
		return mkstr(a.t.String())
	}
	panic(in.unsupported("format %s of %v", spec, a.t))
}

func nativeInt(v uint64, w uint8, signed bool) interface{} {
	if signed {
		switch w {
		case 8:
			return int8(v)
		case 16:
			return int16(v)
		case 32:
			return int32(v)
		}
		return int64(v)
	}
	switch w {
	case 8:
		return uint8(v)
	case 16:
		return uint16(v)
	case 32:
		return uint32(v)
	}
	return v
}

func (in *Interp) lookupMethodByName(t types.Type, name string) *ssa.Function {
	in.P.methMu.Lock()
	defer in.P.methMu.Unlock()
	k := methKey{t, "#" + name}
	if f, ok := in.P.methCache[k]; ok {
		return f
	}
	var f *ssa.Function
	ms := in.P.prog.MethodSets.MethodSet(t)
	for i := 0; i < ms.Len(); i++ {
		sel := ms.At(i)
		if sel.Obj().Name() == name && sel.Obj().Exported() {
			f = in.P.prog.MethodValue(sel)
			break
		}
	}
	in.P.methCache[k] = f
	return f
}

// ---------- strings.Map / ToLower / ToUpper over provably-ASCII symbolic strings: one term per octet, no forks ----------

// mustHold: c is true on every input satisfying the path condition (no fork; one solver query at most).
func (in *Interp) mustHold(c *Term) bool {
	if in.cfg.Concrete != nil {
		return in.ts.Eval(c) != 0
	}
	sc := in.simplifyBool(c)
	if sc.IsConst() {
		return sc.k != 0
	}
	if in.pcFacts[sc] {
		return true
	}
	_, r := in.feasible(in.ts.Not(sc))
	return r == "unsat"
}

func (in *Interp) asciiBytes(s str) bool {
	for i := 0; i < s.Len(); i++ {
		switch b := s.at(i).(type) {
		case uint64:
			if b >= 0x80 {
				return false
			}
		case *Term:
			if !in.mustHold(in.ts.Ult(b, in.ts.Const(8, 0x80))) {
				return false
			}
		}
	}
	return true
}

func (in *Interp) runBody(fr *frame, args []value) value {
	save := in.bypassExt
	in.bypassExt = fr.fn
	defer func() { in.bypassExt = save }()
	return in.callSSA(fr.caller, fr.fn, args, nil)
}

func init() {
	caseMap := func(upper bool) externFn {
		return func(in *Interp, fr *frame, args []value) value {
			s := args[0].(str)
			if s.concrete() || !in.asciiBytes(s) {
				return in.runBody(fr, args)
			}
			ts := in.ts
			out := make([]value, s.Len())
			for i := range out {
				switch b := s.at(i).(type) {
				case uint64:
					c := byte(b)
					if upper && c >= 'a' && c <= 'z' {
						c -= 32
					} else if !upper && c >= 'A' && c <= 'Z' {
						c += 32
					}
					out[i] = uint64(c)
				case *Term:
					lo, hi, d := uint64('A'), uint64('Z'), uint64(32)
					if upper {
						lo, hi, d = 'a', 'z', 0xE0
					}
					inr := ts.And(ts.Ule(ts.Const(8, lo), b), ts.Ule(b, ts.Const(8, hi)))
					out[i] = norm(ts.Ite(inr, ts.Bin(OpAdd, b, ts.Const(8, d)), b))
				}
			}
			return strFromBytes(out)
		}
	}
	externals["strings.ToLower"] = caseMap(false)
	externals["strings.ToUpper"] = caseMap(true)
	externals["strings.Map"] = func(in *Interp, fr *frame, args []value) value {
		s := args[1].(str)
		if s.concrete() || !in.asciiBytes(s) {
			if debugForks && !s.concrete() {
				in.stubs[fmt.Sprintf("fork:strings.Map fallback noFork=%d s=%v", in.noFork, s)]++
			}
			return in.runBody(fr, args)
		}
		ts := in.ts
		out := make([]value, s.Len())
		for i := range out {
			var arg value
			switch b := s.at(i).(type) {
			case uint64:
				arg = b
			case *Term:
				arg = norm(ts.ZExt(b, 32))
			}
			r := in.call(fr, args[0], []value{arg}, nil)
			switch r := r.(type) {
			case uint64:
				if r >= 0x80 {
					panic(in.unsupported("strings.Map: mapping leaves ASCII"))
				}
				out[i] = r
			case *Term:
				if !in.mustHold(ts.Ult(r, ts.Const(32, 0x80))) {
					panic(in.unsupported("strings.Map: mapping may leave ASCII or drop a character"))
				}
				out[i] = norm(ts.Extract(r, 0, 8))
			}
		}
		return strFromBytes(out)
	}
}

func init() {
	clone := func(in *Interp, fr *frame, args []value) value { return args[0] } // strings are immutable values here
	externals["internal/stringslite.Clone"] = clone
	externals["strings.Clone"] = clone
}
