package main

// Object-graph intrinsics for the harness runtime: deep snapshot / comparison and aliasing.

import (
	"fmt"
	"go/types"

	"golang.org/x/tools/go/ssa"
)

func (in *Interp) deepClone(v value, seen map[*value]*value) value {
	switch v := v.(type) {
	case *value:
		if v == nil {
			return v
		}
		if c, ok := seen[v]; ok {
			return c
		}
		cell := new(value)
		seen[v] = cell
		*cell = in.deepClone(*v, seen)
		return cell
	case []value:
		if v == nil {
			return v
		}
		c := make([]value, len(v))
		for i := range v {
			c[i] = in.deepClone(v[i], seen)
		}
		return c
	case structV:
		c := make(structV, len(v))
		for i := range v {
			c[i] = in.deepClone(v[i], seen)
		}
		return c
	case arrayV:
		c := make(arrayV, len(v))
		for i := range v {
			c[i] = in.deepClone(v[i], seen)
		}
		return c
	case iface:
		return iface{t: v.t, v: in.deepClone(v.v, seen)}
	case *omap:
		if v == nil {
			return v
		}
		c := newOmap(v.keyT)
		for i := range v.keys {
			if !v.dead[i] {
				in.mapInsertRaw(c, in.deepClone(v.keys[i], seen), in.deepClone(v.vals[i], seen))
			}
		}
		return c
	}
	return v
}

func (in *Interp) mapInsertRaw(m *omap, key, val value) {
	k, ok := mapKey(key)
	m.keys = append(m.keys, key)
	m.vals = append(m.vals, val)
	m.dead = append(m.dead, false)
	m.n++
	if ok {
		m.idx[k] = len(m.keys) - 1
	}
}

type ptrPair struct{ a, b *value }

// deepEq builds the (possibly symbolic) equality of two object graphs. nil and empty slices are equal.
func (in *Interp) deepEq(a, b value, seen map[ptrPair]bool) value {
	switch x := a.(type) {
	case uint64, bool, *Term:
		var w uint8 = 64
		if t, ok := a.(*Term); ok {
			w = t.w
		} else if t, ok := b.(*Term); ok {
			w = t.w
		}
		switch b.(type) {
		case uint64, bool, *Term:
		default:
			return false
		}
		if _, isB := a.(bool); isB {
			w = 0
		}
		if _, isB := b.(bool); isB {
			w = 0
		}
		ac, aok := a.(uint64)
		bc, bok := b.(uint64)
		if aok && bok {
			return ac == bc
		}
		return norm(in.ts.Eq(in.toTerm(a, w), in.toTerm(b, w)))
	case float64, float32:
		return a == b
	case str:
		y, ok := b.(str)
		if !ok {
			return false
		}
		return in.strEq(x, y)
	case *value:
		y, ok := b.(*value)
		if !ok {
			return false
		}
		if x == nil || y == nil {
			return x == nil && y == nil
		}
		if x == y || seen[ptrPair{x, y}] {
			return true
		}
		seen[ptrPair{x, y}] = true
		return in.deepEq(*x, *y, seen)
	case []value:
		y, ok := b.([]value)
		if !ok || len(x) != len(y) {
			return false
		}
		var acc value = true
		for i := range x {
			acc = in.andv(acc, in.deepEq(x[i], y[i], seen))
			if c, ok := acc.(bool); ok && !c {
				return false
			}
		}
		return acc
	case structV:
		y, ok := b.(structV)
		if !ok || len(x) != len(y) {
			return false
		}
		return in.deepEq([]value(x), []value(y), seen)
	case arrayV:
		y, ok := b.(arrayV)
		if !ok || len(x) != len(y) {
			return false
		}
		return in.deepEq([]value(x), []value(y), seen)
	case iface:
		y, ok := b.(iface)
		if !ok {
			return false
		}
		if x.t == nil || y.t == nil {
			return x.t == nil && y.t == nil
		}
		if !types.Identical(x.t, y.t) {
			return false
		}
		return in.deepEq(x.v, y.v, seen)
	case *omap:
		y, ok := b.(*omap)
		if !ok {
			return false
		}
		if x == nil || y == nil {
			return (x == nil || x.n == 0) && (y == nil || y.n == 0)
		}
		if x.n != y.n {
			return false
		}
		var acc value = true
		for i := range x.keys {
			if x.dead[i] {
				continue
			}
			p := in.mapFind(y, x.keys[i])
			if p < 0 {
				return false
			}
			acc = in.andv(acc, in.deepEq(x.vals[i], y.vals[p], seen))
		}
		return acc
	case *ssa.Function:
		return a == b
	case *closure:
		y, ok := b.(*closure)
		return ok && (x == y || (x != nil && y != nil && x.Fn == y.Fn))
	case nil:
		return b == nil
	}
	return fmt.Sprint(a) == fmt.Sprint(b)
}

// collectCells gathers the addresses of all mutable cells reachable from v.
func collectCells(v value, cells map[*value]bool, maps map[*omap]bool) {
	switch v := v.(type) {
	case *value:
		if v == nil || cells[v] {
			return
		}
		cells[v] = true
		collectInner(*v, cells, maps)
	default:
		collectInner(v, cells, maps)
	}
}

func collectInner(v value, cells map[*value]bool, maps map[*omap]bool) {
	switch v := v.(type) {
	case *value:
		collectCells(v, cells, maps)
	case []value:
		// the spare capacity belongs to the slice as well: an append writes there
		full := v[:cap(v)]
		for i := len(v); i < len(full); i++ {
			cells[&full[i]] = true
		}
		for i := range v {
			if cells[&v[i]] {
				continue
			}
			cells[&v[i]] = true
			collectInner(v[i], cells, maps)
		}
	case structV:
		for i := range v {
			collectInner(v[i], cells, maps)
		}
	case arrayV:
		for i := range v {
			collectInner(v[i], cells, maps)
		}
	case iface:
		collectInner(v.v, cells, maps)
	case *omap:
		if v == nil || maps[v] {
			return
		}
		maps[v] = true
		for i := range v.keys {
			if !v.dead[i] {
				collectInner(v.vals[i], cells, maps)
			}
		}
	}
}

func init() {
	externals[hname("vSnapshot")] = func(in *Interp, fr *frame, args []value) value {
		snaps, _ := in.natives["snaps"].([]value)
		snaps = append(snaps, in.deepClone(args[0], map[*value]*value{}))
		in.natives["snaps"] = snaps
		return uint64(len(snaps) - 1)
	}
	externals[hname("vSame")] = func(in *Interp, fr *frame, args []value) value {
		snaps, _ := in.natives["snaps"].([]value)
		h := int(asInt(args[1]))
		return in.deepEq(args[0], snaps[h], map[ptrPair]bool{})
	}
	externals[hname("vDeepEqual")] = func(in *Interp, fr *frame, args []value) value {
		return in.deepEq(args[0], args[1], map[ptrPair]bool{})
	}
	externals[hname("vAliased")] = func(in *Interp, fr *frame, args []value) value {
		ca, cb := map[*value]bool{}, map[*value]bool{}
		ma, mb := map[*omap]bool{}, map[*omap]bool{}
		collectCells(args[0], ca, ma)
		collectCells(args[1], cb, mb)
		for p := range ca {
			if cb[p] {
				return true
			}
		}
		for m := range ma {
			if mb[m] {
				return true
			}
		}
		return false
	}
}
