package main

import (
	"go/types"

	"golang.org/x/tools/go/ssa"
)

// Channels and goroutines: FIFO channels with a cooperative deterministic scheduler.
// (No schedule exploration: this is enough for single-producer pipelines.)

type scheduler struct{}

func (s *scheduler) finish(in *Interp) {}

type hashRec struct{}

func (in *Interp) chanSend(c *chanV, v value) {
	if c == nil {
		panic(in.unsupported("send on nil channel (blocks forever)"))
	}
	if c.closed {
		in.targetPanicStr("send on closed channel")
	}
	if len(c.buf) < c.cap || in.canBlock() {
		for len(c.buf) >= max(c.cap, 1) {
			in.yield("send")
		}
		c.buf = append(c.buf, copyVal(v))
		return
	}
	panic(in.unsupported("blocking channel send without a receiver"))
}

func (in *Interp) chanRecv(c *chanV, commaOk bool, elemT types.Type) value {
	if c == nil {
		panic(in.unsupported("receive on nil channel (blocks forever)"))
	}
	for len(c.buf) == 0 && !c.closed {
		if !in.canBlock() {
			panic(in.unsupported("blocking channel receive without a sender"))
		}
		in.yield("recv")
	}
	if len(c.buf) > 0 {
		v := c.buf[0]
		c.buf = c.buf[1:]
		if commaOk {
			return tuple{v, true}
		}
		return v
	}
	if commaOk {
		return tuple{zero(elemT), false}
	}
	return zero(elemT)
}

func (in *Interp) chanClose(c *chanV) {
	if c == nil {
		in.targetPanicStr("close of nil channel")
	}
	if c.closed {
		in.targetPanicStr("close of closed channel")
	}
	c.closed = true
}

func (in *Interp) canBlock() bool { return false }
func (in *Interp) yield(why string) {
	panic(in.unsupported("goroutine scheduling (%s)", why))
}

func (in *Interp) goStmt(fr *frame, fn value, args []value) {
	panic(in.unsupported("go statement"))
}

func (in *Interp) selectStmt(fr *frame, instr *ssa.Select) value {
	panic(in.unsupported("select statement"))
}

func (in *Interp) callNativeMethod(caller *frame, nm *nativeMethod, args []value) value {
	if nm.recv.kind == "rtype" && nm.name == "Elem" {
		return iface{t: types.Typ[types.UnsafePointer], v: nm.recv}
	}
	if f := nativeMethods[nm.recv.kind+"."+nm.name]; f != nil {
		return f(in, caller, nm.recv, args)
	}
	panic(in.unsupported("native method %s.%s", nm.recv.kind, nm.name))
}

var nativeMethods = map[string]func(in *Interp, fr *frame, recv *native, args []value) value{}
