package main

import (
	"go/types"

	"golang.org/x/tools/go/ssa"
)

// Channels and goroutines: FIFO channels and a cooperative, deterministic scheduler.
//
// Every interpreted goroutine runs on its own host goroutine, but only one of them holds the baton at any time;
// control changes hands only where the running goroutine cannot proceed (empty/full channel, WaitGroup.Wait,
// a held mutex, select with no ready case) or ends. The next goroutine is chosen round-robin by creation order,
// so a path is replayed identically. This explores ONE fair schedule per path - it is not a schedule search.
// Unbuffered channels rendezvous: the sender continues only after its value has been taken.

type gor struct {
	id     int
	resume chan struct{}
	done   bool
	frame  *frame
}

type scheduler struct {
	gs       []*gor
	cur      *gor
	progress int64       // bumped by every successful channel operation / goroutine start / exit / unlock
	fault    interface{} // panic value that escaped a goroutine; re-raised in the main goroutine
	killing  bool
}

type gorKill struct{}

func (in *Interp) schedInit() *scheduler {
	if in.sched == nil {
		main := &gor{id: 0, resume: make(chan struct{}, 1)}
		in.sched = &scheduler{gs: []*gor{main}, cur: main}
	}
	return in.sched
}

func (in *Interp) canBlock() bool { return in.sched != nil && len(in.sched.gs) > 1 }

// switchTo hands the baton to g and waits until it comes back.
func (in *Interp) switchTo(g *gor) {
	s := in.sched
	me := s.cur
	me.frame = in.curFrame
	s.cur = g
	in.curFrame = g.frame
	g.resume <- struct{}{}
	<-me.resume
	s.cur = me
	in.curFrame = me.frame
	if s.killing && me.id != 0 {
		panic(gorKill{})
	}
	if me.id == 0 && s.fault != nil {
		f := s.fault
		s.fault = nil
		panic(f)
	}
}

// yield: the current goroutine cannot proceed; run the others. Returns when it is this goroutine's turn again.
func (in *Interp) yield(why string) {
	s := in.sched
	if s == nil || len(s.gs) < 2 {
		panic(in.unsupported("goroutine would block forever (%s) with no other goroutine", why))
	}
	if in.noFork > 0 {
		panic(mergeAbort{})
	}
	me := s.cur
	// next live goroutine after me, round-robin
	n := len(s.gs)
	idx := 0
	for i, g := range s.gs {
		if g == me {
			idx = i
		}
	}
	for k := 1; k <= n; k++ {
		g := s.gs[(idx+k)%n]
		if g.done || g == me {
			continue
		}
		in.switchTo(g)
		return
	}
	panic(in.unsupported("all goroutines are blocked (%s)", why))
}

// blockUntil yields until cond holds; if every goroutine keeps yielding without any progress the path deadlocks.
func (in *Interp) blockUntil(why string, cond func() bool) {
	spins := 0
	for !cond() {
		s := in.schedInit()
		before := s.progress
		in.yield(why)
		if s.progress == before {
			spins++
			if spins > 2*len(s.gs)+2 {
				if s.cur.id != 0 {
					// a blocked helper goroutine: park it for good by handing control to main
					in.parkForever(why)
				}
				panic(in.unsupported("deadlock: goroutine blocked forever (%s)", why))
			}
		} else {
			spins = 0
		}
	}
	if in.sched != nil {
		in.sched.progress++
	}
}

// parkForever: a non-main goroutine that can never proceed stops taking turns (it is leaked, as in a real
// program); control returns to the others.
func (in *Interp) parkForever(why string) {
	s := in.sched
	s.cur.done = true
	in.stubs["goroutine parked forever: "+why]++
	main := s.gs[0]
	me := s.cur
	me.frame = in.curFrame
	s.cur = main
	in.curFrame = main.frame
	// wake the next live goroutine (main is always live while the path runs)
	for _, g := range s.gs {
		if !g.done {
			s.cur = g
			in.curFrame = g.frame
			g.resume <- struct{}{}
			break
		}
	}
	<-me.resume // only ever resumed to be killed
	panic(gorKill{})
}

func (in *Interp) goStmt(fr *frame, fn value, args []value) {
	s := in.schedInit()
	g := &gor{id: len(s.gs), resume: make(chan struct{}, 1)}
	s.gs = append(s.gs, g)
	s.progress++
	in.stubs["go statement (cooperative scheduler, one fair schedule)"]++
	go func() {
		<-g.resume
		defer func() {
			r := recover()
			g.done = true
			s.progress++
			if _, killed := r.(gorKill); !killed && r != nil && s.fault == nil && !s.killing {
				s.fault = r
			}
			if s.killing {
				s.gs[0].resume <- struct{}{} // back to finish()
				return
			}
			// hand the baton on: to main if there is a fault, else to the next live goroutine
			next := s.gs[0]
			if s.fault == nil {
				n := len(s.gs)
				for k := 1; k <= n; k++ {
					c := s.gs[(g.id+k)%n]
					if !c.done {
						next = c
						break
					}
				}
			}
			s.cur = next
			in.curFrame = next.frame
			next.resume <- struct{}{}
		}()
		if s.killing {
			panic(gorKill{})
		}
		in.curFrame = nil
		in.call(nil, fn, args, nil)
	}()
}

// finish kills the goroutines that are still alive when the harness returns.
func (s *scheduler) finish(in *Interp) {
	s.killing = true
	for _, g := range s.gs[1:] {
		if g.done {
			continue
		}
		g.done = true
		s.cur = g
		g.resume <- struct{}{}
		<-s.gs[0].resume
	}
	s.cur = s.gs[0]
}

func (in *Interp) chanSend(c *chanV, v value) {
	if c == nil {
		in.blockUntil("send on nil channel", func() bool { return false })
	}
	if c.closed {
		in.targetPanicStr("send on closed channel")
	}
	if c.cap > 0 {
		if len(c.buf) >= c.cap {
			in.blockUntil("send", func() bool { return len(c.buf) < c.cap || c.closed })
			if c.closed {
				in.targetPanicStr("send on closed channel")
			}
		}
		c.buf = append(c.buf, copyVal(v))
		in.bump()
		return
	}
	// unbuffered: wait until the slot is free, put the value, wait until it has been taken
	if len(c.buf) > 0 {
		in.blockUntil("send", func() bool { return len(c.buf) == 0 || c.closed })
		if c.closed {
			in.targetPanicStr("send on closed channel")
		}
	}
	c.buf = append(c.buf, copyVal(v))
	c.sent++
	mine := c.sent
	in.bump()
	in.blockUntil("send (rendezvous)", func() bool { return c.recvd >= mine })
}

func (in *Interp) bump() {
	if in.sched != nil {
		in.sched.progress++
	}
}

func (in *Interp) chanRecv(c *chanV, commaOk bool, elemT types.Type) value {
	if c == nil {
		in.blockUntil("receive on nil channel", func() bool { return false })
	}
	if len(c.buf) == 0 && !c.closed {
		in.blockUntil("recv", func() bool { return len(c.buf) > 0 || c.closed })
	}
	if len(c.buf) > 0 {
		v := c.buf[0]
		c.buf = c.buf[1:]
		c.recvd++
		in.bump()
		if commaOk {
			return tuple{v, true}
		}
		return v
	}
	if commaOk {
		return tuple{zero(elemT), false}
	}
	return zero(elemT)
}

func (in *Interp) chanClose(c *chanV) {
	if c == nil {
		in.targetPanicStr("close of nil channel")
	}
	if c.closed {
		in.targetPanicStr("close of closed channel")
	}
	c.closed = true
	in.bump()
}

// selectStmt: the first ready case in source order is taken (Go picks at random among ready cases; this is one of
// the allowed outcomes). Without a ready case: default if present, else wait.
func (in *Interp) selectStmt(fr *frame, instr *ssa.Select) value {
	if in.noFork > 0 {
		panic(mergeAbort{})
	}
	type st struct {
		c    *chanV
		send bool
		v    value
		elem types.Type
	}
	states := make([]st, len(instr.States))
	for i, s := range instr.States {
		c, _ := fr.get(s.Chan).(*chanV)
		states[i] = st{c: c, send: s.Dir == types.SendOnly}
		if states[i].send {
			states[i].v = fr.get(s.Send)
		} else {
			states[i].elem = s.Chan.Type().Underlying().(*types.Chan).Elem()
		}
	}
	ready := func() int {
		for i, s := range states {
			if s.c == nil {
				continue
			}
			if s.send {
				if s.c.closed || (s.c.cap > 0 && len(s.c.buf) < s.c.cap) {
					return i
				}
			} else if len(s.c.buf) > 0 || s.c.closed {
				return i
			}
		}
		return -1
	}
	idx := ready()
	if idx < 0 {
		if !instr.Blocking {
			idx = -1
		} else {
			in.blockUntil("select", func() bool { idx = ready(); return idx >= 0 })
		}
	}
	// result tuple: (index int, recvOk bool, r_0 T_0, ... r_n-1 T_n-1) with one r per receive state
	res := tuple{uint64(int64(idx)) & mask(64), false}
	for i, s := range states {
		if s.send {
			continue
		}
		if i == idx {
			v := in.chanRecv(s.c, true, s.elem).(tuple)
			res[1] = v[1]
			res = append(res, v[0])
		} else {
			res = append(res, zero(s.elem))
		}
	}
	if idx >= 0 && states[idx].send {
		in.chanSend(states[idx].c, states[idx].v)
	}
	return res
}

func (in *Interp) callNativeMethod(caller *frame, nm *nativeMethod, args []value) value {
	if nm.recv.kind == "rtype" && nm.name == "Elem" {
		return iface{t: types.Typ[types.UnsafePointer], v: nm.recv}
	}
	if f := nativeMethods[nm.recv.kind+"."+nm.name]; f != nil {
		return f(in, caller, nm.recv, args)
	}
	panic(in.unsupported("native method %s.%s", nm.recv.kind, nm.name))
}

var nativeMethods = map[string]func(in *Interp, fr *frame, recv *native, args []value) value{}

// ---------- sync primitives under the cooperative scheduler ----------
// Without other goroutines they never block (a sequential program that would block is not modelled).

type lockState struct {
	writer  bool
	readers int
}

func (in *Interp) lockOf(p value) *lockState {
	m, _ := in.natives["locks"].(map[value]*lockState)
	if m == nil {
		m = map[value]*lockState{}
		in.natives["locks"] = m
	}
	l := m[p]
	if l == nil {
		l = &lockState{}
		m[p] = l
	}
	return l
}

func init() {
	ext := externals
	ext["(*sync.Mutex).Lock"] = func(in *Interp, fr *frame, args []value) value {
		l := in.lockOf(args[0])
		if l.writer && in.canBlock() {
			in.blockUntil("Mutex.Lock", func() bool { return !l.writer })
		}
		l.writer = true
		return nil
	}
	ext["(*sync.Mutex).Unlock"] = func(in *Interp, fr *frame, args []value) value {
		in.lockOf(args[0]).writer = false
		in.bump()
		return nil
	}
	ext["(*sync.RWMutex).Lock"] = func(in *Interp, fr *frame, args []value) value {
		l := in.lockOf(args[0])
		if (l.writer || l.readers > 0) && in.canBlock() {
			in.blockUntil("RWMutex.Lock", func() bool { return !l.writer && l.readers == 0 })
		}
		l.writer = true
		return nil
	}
	ext["(*sync.RWMutex).Unlock"] = ext["(*sync.Mutex).Unlock"]
	ext["(*sync.RWMutex).RLock"] = func(in *Interp, fr *frame, args []value) value {
		l := in.lockOf(args[0])
		if l.writer && in.canBlock() {
			in.blockUntil("RWMutex.RLock", func() bool { return !l.writer })
		}
		l.readers++
		return nil
	}
	ext["(*sync.RWMutex).RUnlock"] = func(in *Interp, fr *frame, args []value) value {
		l := in.lockOf(args[0])
		if l.readers > 0 {
			l.readers--
		}
		in.bump()
		return nil
	}
	wgCount := func(in *Interp, p value) *int64 {
		m, _ := in.natives["wgs"].(map[value]*int64)
		if m == nil {
			m = map[value]*int64{}
			in.natives["wgs"] = m
		}
		c := m[p]
		if c == nil {
			c = new(int64)
			m[p] = c
		}
		return c
	}
	ext["(*sync.WaitGroup).Add"] = func(in *Interp, fr *frame, args []value) value {
		c := wgCount(in, args[0])
		*c += sext(args[1].(uint64), 64)
		if *c < 0 {
			in.targetPanicStr("sync: negative WaitGroup counter")
		}
		in.bump()
		return nil
	}
	ext["(*sync.WaitGroup).Done"] = func(in *Interp, fr *frame, args []value) value {
		c := wgCount(in, args[0])
		*c--
		if *c < 0 {
			in.targetPanicStr("sync: negative WaitGroup counter")
		}
		in.bump()
		return nil
	}
	ext["(*sync.WaitGroup).Wait"] = func(in *Interp, fr *frame, args []value) value {
		c := wgCount(in, args[0])
		if *c > 0 && in.canBlock() {
			in.blockUntil("WaitGroup.Wait", func() bool { return *c <= 0 })
		}
		return nil
	}
}
