package main

import (
	"fmt"
	"go/types"
	"strings"
)

func hname(n string) string { return dnsPath + "." + n }

type obsRec struct {
	tag  string
	vals []value
	typs []types.Type
}

func (in *Interp) freshVar(name string, w uint8) value {
	if in.cfg.Concrete != nil {
		v, ok := in.cfg.Concrete[name]
		if !ok {
			in.res.inputs = append(in.res.inputs, name)
		}
		in.res.model[name] = v & mask(w)
		if w == 0 {
			return v != 0
		}
		return v & mask(w)
	}
	t := in.ts.Var(name, w)
	return t
}

func cstr(v value) string {
	s := v.(str)
	if !s.concrete() {
		panic(pathAbort{"unsupported", "harness API name/id must be concrete"})
	}
	return s.s
}

func (in *Interp) inputsFromModel(m map[string]uint64) map[string]uint64 {
	out := map[string]uint64{}
	for _, v := range in.ts.vars {
		out[v.name] = m[v.name] & mask(v.w)
	}
	for k, v := range in.res.model {
		if strings.HasPrefix(k, "#") {
			out[k] = v
		}
	}
	if in.cfg.Concrete != nil {
		for k, v := range in.res.model {
			out[k] = v
		}
	}
	return out
}

// assume makes c part of the path condition, switching the witness model if necessary.
func (in *Interp) assume(c value) {
	switch c := c.(type) {
	case bool:
		if !c {
			panic(pathAbort{"infeasible", "assumption false"})
		}
	case *Term:
		if in.cfg.Concrete != nil {
			if in.ts.Eval(c) == 0 {
				panic(pathAbort{"infeasible", "assumption false"})
			}
			return
		}
		if in.noFork > 0 {
			panic(mergeAbort{})
		}
		if in.pos < len(in.prefix) {
			// replaying: the stored model satisfies everything up to the end of the prefix
			in.addPC(c)
			return
		}
		if in.ts.Eval(c) != 0 {
			in.addPC(c)
			return
		}
		m, r := in.feasible(c)
		switch r {
		case "sat":
			in.ts.SetModel(m)
			in.addPC(c)
		case "unsat":
			panic(pathAbort{"infeasible", "assumption unsatisfiable"})
		default:
			in.res.unknown++
			panic(pathAbort{"infeasible", "assumption undecided (solver unknown)"})
		}
	}
}

func (in *Interp) checkAssert(cond value, id string, region value, finding string) {
	if in.noFork > 0 {
		panic(mergeAbort{})
	}
	in.res.asserts++
	in.res.assertIDs[id]++
	ts := in.ts
	report := func(m map[string]uint64, find string) {
		in.res.violations = append(in.res.violations, Violation{Assert: id, Kind: "assert", Inputs: in.inputsFromModel(m), Finding: find})
	}
	var c *Term
	switch cv := cond.(type) {
	case bool:
		c = ts.Bool(cv)
	case *Term:
		c = cv
	}
	if in.cfg.Concrete != nil {
		if ts.Eval(c) == 0 {
			f := ""
			if region != nil && ts.Eval(in.boolTerm(region)) != 0 {
				f = finding
			}
			report(ts.model, f)
			panic(pathAbort{"done", "assertion failed (concrete mode)"})
		}
		return
	}
	if c.IsConst() && c.k == 1 {
		return
	}
	if in.noFork > 0 {
		panic(mergeAbort{})
	}
	nc := ts.Not(c)
	check := func(extra *Term, find string) {
		if extra.IsConst() && extra.k == 0 {
			return
		}
		// current witness first
		if ts.Eval(extra) != 0 {
			report(ts.model, find)
			return
		}
		m, r := in.feasible(extra)
		switch r {
		case "sat":
			report(m, find)
		case "unknown":
			in.res.unknown++
		}
	}
	if region == nil {
		check(nc, "")
	} else {
		rg := in.boolTerm(region)
		check(ts.And(nc, ts.Not(rg)), "")
		check(ts.And(nc, rg), finding)
	}
	// continue under the assumption that the assertion holds
	if !(c.IsConst()) {
		if ts.Eval(c) != 0 {
			in.addPC(c)
		} else {
			m, r := in.feasible(c)
			if r == "sat" {
				ts.SetModel(m)
				in.addPC(c)
			} else {
				panic(pathAbort{"done", "path ends at failed assertion"})
			}
		}
	} else if c.k == 0 {
		panic(pathAbort{"done", "path ends at failed assertion"})
	}
}

func registerHarnessAPI() {
	ext := externals
	mkU := func(w uint8) externFn {
		return func(in *Interp, fr *frame, args []value) value {
			return in.freshVar(cstr(args[0]), w)
		}
	}
	ext[hname("vU8")] = mkU(8)
	ext[hname("vU16")] = mkU(16)
	ext[hname("vU32")] = mkU(32)
	ext[hname("vU64")] = mkU(64)
	ext[hname("vBool")] = func(in *Interp, fr *frame, args []value) value {
		v := in.freshVar(cstr(args[0]), 0)
		return v
	}
	ext[hname("vRange")] = func(in *Interp, fr *frame, args []value) value {
		name := cstr(args[0])
		lo, hi := asInt(args[1]), asInt(args[2])
		if lo > hi {
			panic(pathAbort{"infeasible", "empty vRange"})
		}
		if lo == hi {
			return uint64(lo)
		}
		w := uint8(64)
		if lo >= 0 {
			switch {
			case hi < 1<<8:
				w = 8
			case hi < 1<<16:
				w = 16
			case hi < 1<<32:
				w = 32
			}
		}
		v := in.freshVar(name, w)
		switch v := v.(type) {
		case uint64:
			sv := int64(v)
			if w == 64 {
				sv = int64(v)
			}
			if sv < lo || sv > hi {
				panic(pathAbort{"infeasible", "vRange outside"})
			}
			return uint64(sv)
		case *Term:
			x := in.ts.ZExt(v, 64)
			if w == 64 {
				x = v
				in.assume(norm(in.ts.And(in.ts.Sle(in.ts.Const(64, uint64(lo)), x), in.ts.Sle(x, in.ts.Const(64, uint64(hi))))))
			} else {
				in.assume(norm(in.ts.And(in.ts.Ule(in.ts.Const(64, uint64(lo)), x), in.ts.Ule(x, in.ts.Const(64, uint64(hi))))))
			}
			return norm(x)
		}
		panic("vRange")
	}
	ext[hname("vChoice")] = func(in *Interp, fr *frame, args []value) value {
		return uint64(in.choice(cstr(args[0]), int(asInt(args[1]))))
	}
	ext[hname("vBytes")] = func(in *Interp, fr *frame, args []value) value {
		name := cstr(args[0])
		k := int(asInt(args[1]))
		r := make([]value, k)
		for i := range r {
			r[i] = in.freshVar(fmt.Sprintf("%s.%d", name, i), 8)
		}
		return r
	}
	ext[hname("vAssume")] = func(in *Interp, fr *frame, args []value) value {
		in.assume(args[0])
		return nil
	}
	ext[hname("vAssert")] = func(in *Interp, fr *frame, args []value) value {
		in.checkAssert(args[0], cstr(args[1]), nil, "")
		return nil
	}
	ext[hname("vAssertExcept")] = func(in *Interp, fr *frame, args []value) value {
		in.checkAssert(args[0], cstr(args[1]), args[2], cstr(args[3]))
		return nil
	}
	ext[hname("vReach")] = func(in *Interp, fr *frame, args []value) value {
		if in.noFork > 0 {
			panic(mergeAbort{})
		}
		in.res.reach[cstr(args[0])]++
		return nil
	}
	ext[hname("vObserve")] = func(in *Interp, fr *frame, args []value) value {
		if in.noFork > 0 {
			panic(mergeAbort{})
		}
		tag := cstr(args[0])
		rec := obsRec{tag: tag}
		for _, a := range args[1].([]value) {
			it := a.(iface)
			if sl, ok := it.v.([]value); ok {
				it.v = append([]value(nil), sl...)
			}
			rec.vals = append(rec.vals, it)
		}
		in.res.obsRecs = append(in.res.obsRecs, rec)
		return nil
	}
	ext[hname("vSteps")] = func(in *Interp, fr *frame, args []value) value { return uint64(in.steps) }
	ext[hname("vAllocBytes")] = func(in *Interp, fr *frame, args []value) value { return uint64(in.alloc) }
	ext[hname("vSymbolic")] = func(in *Interp, fr *frame, args []value) value { return in.cfg.Concrete == nil }
	ext[hname("vNow")] = func(in *Interp, fr *frame, args []value) value { return in.nowValue() }
	// the library's random message ID: an arbitrary 16-bit value
	ext[hname("id")] = func(in *Interp, fr *frame, args []value) value {
		in.uniq++
		in.stubs["dns.id (random message ID) = arbitrary value"]++
		return in.freshVar(fmt.Sprintf("randid%d", in.uniq), 16)
	}
	ext[hname("vFixNow")] = func(in *Interp, fr *frame, args []value) value {
		if _, ok := in.natives["now"]; ok {
			panic(in.unsupported("vFixNow after the clock was read"))
		}
		in.natives["now"] = value(args[0].(uint64))
		return nil
	}
	ext[hname("vAdvanceClock")] = func(in *Interp, fr *frame, args []value) value {
		n := uint64(asInt(args[0]))
		switch now := in.nowValue().(type) {
		case uint64:
			in.natives["now"] = value(now + n)
		case *Term:
			in.natives["now"] = value(norm(in.ts.Bin(OpAdd, now, in.ts.Const(64, n))))
		}
		in.stubs["clock advanced by the harness connection"]++
		return nil
	}
	ext[hname("vConcretize")] = func(in *Interp, fr *frame, args []value) value {
		switch v := args[0].(type) {
		case *Term:
			return in.concretize(v, "vConcretize")
		}
		return args[0]
	}
}

func (in *Interp) nowValue() value {
	if v, ok := in.natives["now"]; ok {
		return v.(value)
	}
	v := in.freshVar("now", 64)
	if t, ok := v.(*Term); ok {
		// keep "now" in a sane positive range (seconds since 1970 up to year ~2500)
		in.assume(norm(in.ts.Ult(t, in.ts.Const(64, 1<<34))))
	}
	in.natives["now"] = v
	return v
}

// obsString renders a value under the current model in the format the native runtime uses.
func (in *Interp) obsString(a iface) string {
	if a.t == nil {
		return "nil"
	}
	ev := func(v value) uint64 {
		switch v := v.(type) {
		case uint64:
			return v
		case *Term:
			return in.ts.Eval(v)
		case bool:
			return b2u(v)
		}
		panic(fmt.Sprintf("obs: %T", v))
	}
	switch v := a.v.(type) {
	case bool:
		return fmt.Sprint(v)
	case *Term:
		if v.w == 0 {
			return fmt.Sprint(in.ts.Eval(v) != 0)
		}
		w, signed, _ := intWidth(a.t)
		x := in.ts.Eval(v)
		if signed {
			return fmt.Sprint(sext(x, w))
		}
		return fmt.Sprint(x)
	case uint64:
		w, signed, _ := intWidth(a.t)
		if signed {
			return fmt.Sprint(sext(v, w))
		}
		return fmt.Sprint(v)
	case str:
		b := make([]byte, len(v.s))
		for i := range b {
			b[i] = byte(ev(v.at(i)))
		}
		return fmt.Sprintf("%x", b)
	case []value:
		b := make([]byte, len(v))
		for i := range b {
			b[i] = byte(ev(v[i]))
		}
		return fmt.Sprintf("%x", b)
	case iface:
		if v.t == nil {
			return "nil"
		}
		return "non-nil"
	}
	if isNilValue(a.v) {
		return "nil"
	}
	return "non-nil"
}
