package main

import (
	"runtime/debug"
	"runtime/pprof"
	"encoding/json"
	"flag"
	"fmt"
	"go/types"
	"os"
	"path/filepath"
	"runtime"
	"sort"
	"strings"
	"time"

	"golang.org/x/tools/go/packages"
	"golang.org/x/tools/go/ssa"
	"golang.org/x/tools/go/ssa/ssautil"
)

var initWhitelist = []string{
	"strconv", "strings", "bytes", "unicode", "unicode/utf8", "unicode/utf16", "sort", "slices", "errors", "math", "math/bits",
	"encoding/binary", "encoding/hex", "encoding/base32", "encoding/base64", "net/netip", "net", "path", "path/filepath", "bufio",
	"io", "io/fs", "time", "context", "internal/bytealg", "internal/stringslite", "internal/itoa", "internal/byteorder",
	"internal/oserror", "internal/bisect", "unique", "cmp", "maps", "iter", "encoding", "hash", "crypto", "sync", "sync/atomic",
	"internal/godebug", "internal/godebugs", "math/rand", "internal/filepathlite", "fmt", "os", "syscall", "internal/poll",
	"internal/testlog", "internal/syscall/unix", "internal/syscall/execenv", "reflect", "internal/reflectlite", "runtime",
	"internal/abi", "internal/cpu", "internal/goarch", "internal/goos", "golang.org/x/net/ipv4", "golang.org/x/net/ipv6",
	dnsPath, dnsPath + "/dnsutil",
}

// packages whose init is never interpreted (their globals stay zero unless seeded)
var initSkip = map[string]bool{
	"os": true, "syscall": true, "internal/poll": true, "runtime": true, "reflect": true, "internal/reflectlite": true, "fmt": true,
	"internal/testlog": true, "internal/syscall/unix": true, "internal/syscall/execenv": true, "internal/cpu": true,
	"golang.org/x/net/ipv4": true, "golang.org/x/net/ipv6": true, "math/rand": true, "internal/godebug": true,
	"context": true, "sync": true,
}

func loadProgram(repo, harnessDir string) (*Prog, error) {
	overlay := map[string][]byte{}
	ents, _ := os.ReadDir(harnessDir)
	for _, e := range ents {
		if e.IsDir() || !strings.HasSuffix(e.Name(), ".go") || strings.HasSuffix(e.Name(), "_test.go") {
			continue
		}
		b, err := os.ReadFile(filepath.Join(harnessDir, e.Name()))
		if err != nil {
			return nil, err
		}
		overlay[filepath.Join(repo, e.Name())] = b
	}
	// dnsutil harness
	ents2, _ := os.ReadDir(filepath.Join(harnessDir, "dnsutil"))
	for _, e := range ents2 {
		if strings.HasSuffix(e.Name(), ".go") && !strings.HasSuffix(e.Name(), "_test.go") {
			b, _ := os.ReadFile(filepath.Join(harnessDir, "dnsutil", e.Name()))
			overlay[filepath.Join(repo, "dnsutil", e.Name())] = b
		}
	}
	cfg := &packages.Config{
		Mode:    packages.LoadAllSyntax,
		Dir:     repo,
		Overlay: overlay,
		Env:     append(os.Environ(), "GOFLAGS=-mod=mod", "GOPROXY=off"),
	}
	pkgs, err := packages.Load(cfg, ".", "./dnsutil")
	if err != nil {
		return nil, err
	}
	nerr := 0
	packages.Visit(pkgs, nil, func(p *packages.Package) {
		for _, e := range p.Errors {
			if nerr < 20 {
				fmt.Fprintf(os.Stderr, "load error: %v\n", e)
			}
			nerr++
		}
	})
	if nerr > 0 {
		return nil, fmt.Errorf("%d package load errors (harness does not compile against this tree?)", nerr)
	}
	prog, spkgs := ssautil.AllPackages(pkgs, ssa.InstantiateGenerics)
	prog.Build()
	P := &Prog{prog: prog, pkgByPath: map[string]*ssa.Package{}, fnInfos: map[*ssa.Function]*fnInfo{}, methCache: map[methKey]*ssa.Function{}, initWhite: map[string]bool{}}
	for _, sp := range spkgs {
		if sp != nil && sp.Pkg.Path() == dnsPath {
			P.dns = sp
		}
	}
	for _, sp := range prog.AllPackages() {
		P.pkgByPath[sp.Pkg.Path()] = sp
	}
	for _, w := range initWhitelist {
		if !initSkip[w] {
			P.initWhite[w] = true
		}
	}
	if P.dns == nil {
		return nil, fmt.Errorf("dns package not found")
	}
	rt := P.pkgByPath["runtime"]
	if rt == nil {
		return nil, fmt.Errorf("runtime package not loaded")
	}
	P.runtimeErrT = rt.Type("errorString").Object().Type()
	return P, nil
}

func NewInterp(P *Prog) *Interp {
	in := &Interp{P: P, ts: NewTermStore(), globals: map[*ssa.Global]*value{}, inited: map[*ssa.Package]bool{},
		fnCount: map[*ssa.Function]int64{}, stubs: map[string]int{}, natives: map[string]interface{}{}, sliceData: map[*value][]value{}}
	in.cfg = &RunConfig{}
	in.res = &PathResult{assertIDs: map[string]int{}, reach: map[string]int{}, model: map[string]uint64{}}
	in.stats = &workerStats{}
	in.maxSteps = 1 << 40
	// initialise the dns package (and, transitively, the whitelisted std packages) once per worker
	func() {
		defer func() {
			if r := recover(); r != nil {
				if pa, ok := r.(pathAbort); ok {
					fmt.Fprintf(os.Stderr, "init failed: %s: %s\n", pa.kind, pa.msg)
					os.Exit(2)
				}
				panic(r)
			}
		}()
		in.ensureInit(P.dns)
	}()
	if du := P.pkgByPath[dnsPath+"/dnsutil"]; du != nil {
		in.ensureInit(du)
	}
	return in
}

type listFlag []string

func (l *listFlag) String() string     { return strings.Join(*l, ",") }
func (l *listFlag) Set(s string) error { *l = append(*l, strings.Split(s, ",")...); return nil }

func main() {
	if len(os.Args) > 1 && os.Args[1] == "check" {
		os.Exit(cmdCheck(os.Args[2:]))
	}
	var harnesses listFlag
	repo := flag.String("repo", "/repo", "repository")
	hdir := flag.String("harness", "/verif/harness", "harness dir")
	flag.Var(&harnesses, "run", "harness entry points")
	workers := flag.Int("workers", runtime.NumCPU(), "workers")
	maxSteps := flag.Int64("steps", 2000000, "step budget per path")
	maxPaths := flag.Int("paths", 0, "path budget")
	solver := flag.String("solver", "z3-new", "solver")
	tmo := flag.Int("timeout", 10000, "per-query timeout ms")
	verbose := flag.Bool("v", false, "verbose")
	concrete := flag.String("concrete", "", "JSON file with concrete inputs (concrete mode)")
	params := flag.String("params", "", "k=v,k=v harness parameters")
	cpuprof := flag.String("cpuprofile", "", "cpu profile")
	dump := flag.String("dump", "", "dump the SSA of this dns package function and exit")
	flag.Parse()
	if *cpuprof != "" {
		f, _ := os.Create(*cpuprof)
		pprof.StartCPUProfile(f)
		defer pprof.StopCPUProfile()
	}
	debug.SetGCPercent(400)
	t0 := time.Now()
	P, err := loadProgram(*repo, *hdir)
	if err != nil {
		fmt.Fprintln(os.Stderr, "load:", err)
		os.Exit(2)
	}
	fmt.Fprintf(os.Stderr, "loaded+built SSA in %.1fs\n", time.Since(t0).Seconds())
	if *dump != "" {
		if f := P.dns.Func(*dump); f != nil {
			f.WriteTo(os.Stderr)
		}
		os.Exit(0)
	}
	setParams(*params)
	pool := &WorkerPool{P: P, workers: map[int]*Interp{}, kind: *solver, timeout: *tmo}
	defer pool.Close()
	code := 0
	for _, h := range harnesses {
		cfg := &RunConfig{Harness: h, MaxSteps: *maxSteps, MaxPaths: *maxPaths, SolverKind: *solver, TimeoutMs: *tmo, Workers: *workers, Verbose: *verbose}
		if *concrete != "" {
			b, err := os.ReadFile(*concrete)
			if err != nil {
				panic(err)
			}
			m := map[string]uint64{}
			if err := json.Unmarshal(b, &m); err != nil {
				panic(err)
			}
			cfg.Concrete = m
		}
		st := RunHarness(P, pool, cfg)
		printStats(st)
		if len(st.Violations) > 0 {
			code = 1
		}
	}
	if *cpuprof != "" {
		pprof.StopCPUProfile()
	}
	os.Exit(code)
}

func printStats(st *HarnessStats) {
	fmt.Printf("== %s: paths=%d pruned=%d unsupported=%d overbudget=%d unknown=%d decisions=%d asserts=%d maxsteps=%d sat=%d unsat=%d quick=%d solver=%.1fs wall=%.1fs exhaustive=%v drift=%d\n",
		st.Name, st.Paths, st.Pruned, st.Unsupported, st.OverBudget, st.Unknown, st.Decisions, st.Asserts, st.MaxSteps, st.Sat, st.Unsat, st.QuickSat, st.SolverS, st.WallS, st.Exhaustive, st.Drift)
	for _, k := range sortedKeys(st.UnsupportedMsgs) {
		fmt.Printf("   unsupported x%d: %s\n", st.UnsupportedMsgs[k], k)
	}
	if debugForks {
		type kv struct {
			k string
			n int64
		}
		var fs []kv
		for k, n := range st.Stubs {
			if strings.HasPrefix(k, "fork:") {
				fs = append(fs, kv{k, int64(n)})
			}
		}
		sort.Slice(fs, func(i, j int) bool { return fs[i].n > fs[j].n })
		for i, f := range fs {
			if i < 25 {
				fmt.Printf("   %8d %s\n", f.n, f.k)
			}
		}
	}
	ids := sortedKeys(st.AssertIDs)
	fmt.Printf("   asserts: ")
	for _, k := range ids {
		fmt.Printf("%s=%d ", k, st.AssertIDs[k])
	}
	fmt.Println()
	for _, v := range st.Violations {
		fmt.Printf("   VIOL %s kind=%s finding=%q %s inputs=%s\n", v.Assert, v.Kind, v.Finding, v.Msg, compactInputs(v.Inputs))
	}
}

var harnessParams = map[string]int64{}

func setParams(s string) {
	for _, kv := range strings.Split(s, ",") {
		if kv == "" {
			continue
		}
		p := strings.SplitN(kv, "=", 2)
		var v int64
		fmt.Sscan(p[1], &v)
		harnessParams[p[0]] = v
	}
}

func init() {
	externals[hname("vParam")] = func(in *Interp, fr *frame, args []value) value {
		name := cstr(args[0])
		if v, ok := harnessParams[name]; ok {
			return uint64(v)
		}
		return args[1]
	}
}

var _ = sort.Strings
var _ = types.Identical
