package main

// `symgo check <property> <tier>`: run the property's harness set, validate witnesses and
// counterexamples against the natively compiled package, write evidence, set exit code.

import (
	"runtime/debug"
	"bytes"
	"encoding/json"
	"fmt"
	"os"
	"os/exec"
	"path/filepath"
	"regexp"
	"runtime"
	"sort"
	"strconv"
	"strings"
	"time"
)

type harnessCfg struct {
	Name            string           `json:"name"`
	Quick           map[string]int64 `json:"quick"`
	Thorough        map[string]int64 `json:"thorough"`
	ExpectViolation bool             `json:"expect_violation"` // vacuity twin
	MaxSteps        int64            `json:"max_steps"`
	MustReach       []string         `json:"must_reach"`
	QuickOnly       bool             `json:"quick_only"`
	ThoroughOnly    bool             `json:"thorough_only"`
	Note            string           `json:"note"`
}

type propCfg struct {
	Title       string       `json:"title"`
	Harnesses   []harnessCfg `json:"harnesses"`
	Assumptions []string     `json:"assumptions"`
	Stubs       []string     `json:"stubs"`
	Outside     []string     `json:"outside"`
	QuickBudgetS    int      `json:"quick_budget_s"`
	ThoroughBudgetS int      `json:"thorough_budget_s"`
}

type knownFinding struct {
	Property string `json:"property"`
	Finding  string `json:"finding"`
	Status   string `json:"status"` // "open" or "fixed: <commit>"
	Harness  string `json:"harness"`
	Assert   string `json:"assert"`
	Region   string `json:"region"`
	What     string `json:"what"`
}

type replayCase struct {
	Harness string            `json:"harness"`
	Inputs  map[string]uint64 `json:"inputs"`
	Params  map[string]int    `json:"params"`
	// expectations (not read by the native side)
	ExpectFailed string   `json:"expect_failed,omitempty"`
	ExpectObs    []string `json:"expect_obs,omitempty"`
	Kind         string   `json:"kind,omitempty"` // witness | violation
	Finding      string   `json:"finding,omitempty"`
	Msg          string   `json:"msg,omitempty"`
}

type nativeResult struct {
	Status  string
	Failed  []string
	Finding []string
	Panic   string
	Obs     []string
}

var verifDir = "/verif"

func runNative(repo, harnessDir string, cases []replayCase) ([]nativeResult, string, error) {
	if len(cases) == 0 {
		return nil, "", nil
	}
	tmp, err := os.MkdirTemp(filepath.Join(verifDir, "replays"), "run-")
	if err != nil {
		return nil, "", err
	}
	defer os.RemoveAll(tmp)
	ov := map[string]map[string]string{"Replace": {}}
	ents, _ := os.ReadDir(harnessDir)
	for _, e := range ents {
		if !e.IsDir() && strings.HasSuffix(e.Name(), ".go") {
			ov["Replace"][filepath.Join(repo, e.Name())] = filepath.Join(harnessDir, e.Name())
		}
	}
	ob, _ := json.Marshal(ov)
	ovPath := filepath.Join(tmp, "overlay.json")
	os.WriteFile(ovPath, ob, 0o644)
	cb, _ := json.Marshal(cases)
	casePath := filepath.Join(tmp, "cases.json")
	os.WriteFile(casePath, cb, 0o644)
	cmd := exec.Command("go", "test", "-v", "-vet=off", "-count=1", "-overlay", ovPath, "-run", "^TestVerifReplay$", "-timeout", "20m", ".")
	cmd.Dir = repo
	cmd.Env = append(os.Environ(), "GOFLAGS=-mod=mod", "GOPROXY=off", "VERIF_REPLAY="+casePath)
	var out bytes.Buffer
	cmd.Stdout = &out
	cmd.Stderr = &out
	runErr := cmd.Run()
	res := make([]nativeResult, len(cases))
	seen := 0
	reRes := regexp.MustCompile(`^VERIF-RESULT case=(\d+) harness=(\S+) status=(\S+) failed=(\S*) finding=(\S*) panic=(.*)$`)
	reObs := regexp.MustCompile(`^VERIF-OBS case=(\d+) (.*)$`)
	for _, line := range strings.Split(out.String(), "\n") {
		if m := reRes.FindStringSubmatch(line); m != nil {
			i, _ := strconv.Atoi(m[1])
			if i < len(res) {
				res[i].Status = m[3]
				if m[4] != "" {
					res[i].Failed = strings.Split(m[4], ",")
					res[i].Finding = strings.Split(m[5], ",")
				}
				res[i].Panic, _ = strconv.Unquote(m[6])
				seen++
			}
		} else if m := reObs.FindStringSubmatch(line); m != nil {
			i, _ := strconv.Atoi(m[1])
			if i < len(res) {
				res[i].Obs = append(res[i].Obs, m[2])
			}
		}
	}
	if seen != len(cases) {
		return res, out.String(), fmt.Errorf("native replay produced %d of %d results (go test: %v)", seen, len(cases), runErr)
	}
	return res, out.String(), nil
}

func loadJSON(path string, v interface{}) error {
	b, err := os.ReadFile(path)
	if err != nil {
		return err
	}
	return json.Unmarshal(b, v)
}

func paramsToInt(p map[string]int64) map[string]int {
	r := map[string]int{}
	for k, v := range p {
		r[k] = int(v)
	}
	return r
}

func cmdReplay(path string) int {
	var c replayCase
	if err := loadJSON(path, &c); err != nil {
		fmt.Fprintln(os.Stderr, err)
		return 2
	}
	res, out, err := runNative("/repo", filepath.Join(verifDir, "harness"), []replayCase{c})
	if err != nil {
		fmt.Println(out)
		fmt.Fprintln(os.Stderr, err)
		return 2
	}
	r := res[0]
	fmt.Printf("native replay: status=%s failed=%v panic=%q\n", r.Status, r.Failed, r.Panic)
	for _, o := range r.Obs {
		fmt.Println("  obs:", o)
	}
	if r.Status == "assert" || r.Status == "panic" {
		return 1
	}
	return 0
}

func cmdCheck(args []string) int {
	if len(args) >= 2 && args[0] == "replay" {
		return cmdReplay(args[1])
	}
	if len(args) < 1 {
		fmt.Fprintln(os.Stderr, "usage: symgo check <property> [quick|thorough]")
		return 2
	}
	prop := args[0]
	tier := "quick"
	if len(args) > 1 {
		tier = args[1]
	}
	if t := os.Getenv("VERIF_TIER"); t != "" && len(args) < 2 {
		tier = t
	}
	seed := 1
	if s := os.Getenv("VERIF_SEED"); s != "" {
		seed, _ = strconv.Atoi(s)
	}
	repo := "/repo"
	if r := os.Getenv("VERIF_REPO"); r != "" {
		repo = r
	}
	harnessDir := filepath.Join(verifDir, "harness")
	debug.SetGCPercent(400)
	t0 := time.Now()
	var props map[string]*propCfg
	if err := loadJSON(filepath.Join(verifDir, "props.json"), &props); err != nil {
		fmt.Fprintln(os.Stderr, "props.json:", err)
		return 2
	}
	pc := props[prop]
	if pc == nil {
		fmt.Fprintf(os.Stderr, "unknown property %s\n", prop)
		return 2
	}
	var known []knownFinding
	loadJSON(filepath.Join(verifDir, "known_findings.json"), &known)
	openFinding := map[string]knownFinding{}
	for _, k := range known {
		if k.Property == prop && k.Status == "open" {
			openFinding[k.Finding] = k
		}
	}

	evPath := filepath.Join(verifDir, "evidence", prop+".json")
	os.MkdirAll(filepath.Join(verifDir, "evidence"), 0o755)
	os.MkdirAll(filepath.Join(verifDir, "replays"), 0o755)
	inconclusive := []string{}
	writeEvidence := func(ev map[string]interface{}) {
		b, _ := json.MarshalIndent(ev, "", " ")
		os.WriteFile(evPath, b, 0o644)
	}

	P, err := loadProgram(repo, harnessDir)
	if err != nil {
		fmt.Fprintf(os.Stderr, "INCONCLUSIVE: cannot load %s with the harness overlay: %v\n", repo, err)
		writeEvidence(map[string]interface{}{"property_id": prop, "tier": tier, "seed": seed, "level": "model_checking", "wall_s": time.Since(t0).Seconds(),
			"violations": 0, "coverage": map[string]interface{}{"evaluations": 0, "distinct_nontrivial": 0, "exhaustive": false,
				"explanation": "harness overlay does not compile against the current tree: " + err.Error()}})
		return 2
	}
	loadS := time.Since(t0).Seconds()
	solverKind := "z3-new"
	if s := os.Getenv("VERIF_SOLVER"); s != "" {
		solverKind = s
	}
	tmo := 10000
	budget := pc.QuickBudgetS
	if budget == 0 {
		budget = 600
	}
	if tier == "thorough" {
		tmo = 60000
		budget = pc.ThoroughBudgetS
		if budget == 0 {
			budget = 3600
		}
	}
	pool := &WorkerPool{P: P, workers: map[int]*Interp{}, kind: solverKind, timeout: tmo}
	defer pool.Close()
	deadline := time.Now().Add(time.Duration(budget) * time.Second)

	var allStats []*HarnessStats
	var cases []replayCase
	type caseRef struct {
		h    *HarnessStats
		hc   harnessCfg
		viol *Violation
	}
	var refs []caseRef
	states, transitions := 0, 0
	sat, unsat, unknown := 0, 0, 0
	solverS := 0.0
	fnEncoded := map[string]int64{}
	stubs := map[string]int{}
	var samples []map[string]interface{}
	bounds := map[string]interface{}{}
	exhaustive := true
	for _, hc := range pc.Harnesses {
		if (tier == "quick" && hc.ThoroughOnly) || (tier == "thorough" && hc.QuickOnly) {
			continue
		}
		params := hc.Quick
		if tier == "thorough" && hc.Thorough != nil {
			params = hc.Thorough
		}
		harnessParams = map[string]int64{}
		for k, v := range params {
			harnessParams[k] = v
			bounds[k] = v
		}
		ms := hc.MaxSteps
		if ms == 0 {
			ms = 3000000
		}
		cfg := &RunConfig{Harness: hc.Name, MaxSteps: ms, SolverKind: solverKind, TimeoutMs: tmo, Workers: runtime.NumCPU(), Deadline: deadline}
		st := RunHarness(P, pool, cfg)
		allStats = append(allStats, st)
		fmt.Fprintf(os.Stderr, "[%s] %s: paths=%d pruned=%d unsupported=%d overbudget=%d unknown=%d asserts=%d violations=%d exhaustive=%v drift=%d wall=%.1fs\n",
			prop, hc.Name, st.Paths, st.Pruned, st.Unsupported, st.OverBudget, st.Unknown, st.Asserts, len(st.Violations), st.Exhaustive, st.Drift, st.WallS)
		for _, k := range sortedKeys(st.UnsupportedMsgs) {
			fmt.Fprintf(os.Stderr, "      x%d %s\n", st.UnsupportedMsgs[k], k)
		}
		states += st.Paths
		transitions += st.Decisions
		sat += st.Sat + st.QuickSat
		unsat += st.Unsat
		unknown += st.Unknown
		solverS += st.SolverS
		for f, n := range st.FnCount {
			fnEncoded[f] += n
		}
		for s, n := range st.Stubs {
			stubs[s] += n
		}
		if len(samples) < 8 {
			samples = append(samples, st.Samples...)
		}
		if !st.Exhaustive {
			exhaustive = false
			inconclusive = append(inconclusive, fmt.Sprintf("%s: exploration incomplete (unsupported=%d over_budget=%d solver_unknown=%d)", hc.Name, st.Unsupported, st.OverBudget, st.Unknown))
		}
		if st.Drift > 0 {
			inconclusive = append(inconclusive, fmt.Sprintf("%s: replay divergence (model drift) in the engine", hc.Name))
		}
		if st.Paths == 0 || st.Asserts == 0 {
			inconclusive = append(inconclusive, fmt.Sprintf("%s: vacuous (paths=%d assertions=%d)", hc.Name, st.Paths, st.Asserts))
		}
		for _, r := range hc.MustReach {
			if st.Reach[r] == 0 {
				inconclusive = append(inconclusive, fmt.Sprintf("%s: reach marker %q never reached", hc.Name, r))
			}
		}
		// witnesses for translator validation
		nW := 12
		if tier == "thorough" {
			nW = 48
		}
		for i, w := range st.Witness {
			if i >= nW {
				break
			}
			cases = append(cases, replayCase{Harness: hc.Name, Inputs: w.Model, Params: paramsToInt(params), ExpectObs: w.Obs, Kind: "witness"})
			refs = append(refs, caseRef{h: st, hc: hc})
		}
		for i := range st.Violations {
			v := &st.Violations[i]
			cases = append(cases, replayCase{Harness: hc.Name, Inputs: v.Inputs, Params: paramsToInt(params), ExpectFailed: v.Assert, Kind: "violation", Finding: v.Finding, Msg: v.Msg})
			refs = append(refs, caseRef{h: st, hc: hc, viol: v})
		}
	}

	// native validation
	validated := 0
	nviol := 0
	var violLines, knownLines []string
	res, out, nerr := runNative(repo, harnessDir, cases)
	if nerr != nil {
		inconclusive = append(inconclusive, "native replay failed: "+nerr.Error())
		tail := out
		if len(tail) > 3000 {
			tail = tail[len(tail)-3000:]
		}
		fmt.Fprintln(os.Stderr, tail)
	} else {
		confirmedVac := map[string]bool{}
		for i, c := range cases {
			r := res[i]
			ref := refs[i]
			if c.Kind == "witness" {
				if r.Status == "ok" && strings.Join(r.Obs, "\n") == strings.Join(c.ExpectObs, "\n") {
					validated++
				} else if r.Status == "infeasible" {
					inconclusive = append(inconclusive, fmt.Sprintf("%s: witness model rejected natively (assumption false)", c.Harness))
				} else {
					inconclusive = append(inconclusive, fmt.Sprintf("%s: ENCODING DISCREPANCY on a witness: native status=%s failed=%v panic=%q obs=%v; engine obs=%v inputs=%v", c.Harness, r.Status, r.Failed, r.Panic, r.Obs, c.ExpectObs, c.Inputs))
				}
				continue
			}
			// violation
			reproduced := false
			if c.ExpectFailed == "no-panic" {
				reproduced = r.Status == "panic"
			} else {
				for _, f := range r.Failed {
					if f == c.ExpectFailed {
						reproduced = true
					}
				}
			}
			if !reproduced {
				inconclusive = append(inconclusive, fmt.Sprintf("%s: ENCODING DISCREPANCY: counterexample for %q does not reproduce natively (native status=%s failed=%v panic=%q) inputs=%v", c.Harness, c.ExpectFailed, r.Status, r.Failed, r.Panic, c.Inputs))
				continue
			}
			validated++
			ref.viol.Replayed = "reproduced"
			if ref.hc.ExpectViolation {
				confirmedVac[c.Harness] = true
				continue
			}
			if c.Finding != "" {
				if kf, ok := openFinding[c.Finding]; ok {
					knownLines = append(knownLines, fmt.Sprintf("KNOWN-FINDING: property=%s %s [%s/%s] %s; e.g. inputs=%s", prop, c.Finding, c.Harness, c.ExpectFailed, kf.What, compactInputs(c.Inputs)))
					continue
				}
			}
			nviol++
			rp := filepath.Join(verifDir, "replays", fmt.Sprintf("%s-%s-%s-%d.json", prop, c.Harness, sanitize(c.ExpectFailed), nviol))
			cb, _ := json.MarshalIndent(c, "", " ")
			os.WriteFile(rp, cb, 0o644)
			violLines = append(violLines, fmt.Sprintf("VIOLATION property=%s replay=%s", prop, rp))
			fmt.Fprintf(os.Stderr, "  violated: harness=%s assert=%s %s inputs=%s\n", c.Harness, c.ExpectFailed, c.Msg, compactInputs(c.Inputs))
		}
		for _, hc := range pc.Harnesses {
			if hc.ExpectViolation && !confirmedVac[hc.Name] && !((tier == "quick" && hc.ThoroughOnly) || (tier == "thorough" && hc.QuickOnly)) {
				inconclusive = append(inconclusive, fmt.Sprintf("%s: vacuity twin did not produce a reproduced violation", hc.Name))
			}
		}
	}
	// dedupe known lines
	sort.Strings(knownLines)
	seenK := map[string]bool{}
	var knownSeen []string
	for _, l := range knownLines {
		key := strings.SplitN(l, " [", 2)[0]
		if !seenK[key] {
			seenK[key] = true
			fmt.Println(l)
			knownSeen = append(knownSeen, key)
		}
	}
	for _, l := range violLines {
		fmt.Println(l)
	}

	// evidence
	type fc struct {
		n string
		c int64
	}
	var fcs []fc
	for f, n := range fnEncoded {
		if strings.Contains(f, "miekg/dns") && !strings.Contains(f, ".v") && !strings.Contains(f, ".H_C") && !strings.Contains(f, ".ref") {
			fcs = append(fcs, fc{f, n})
		}
	}
	sort.Slice(fcs, func(i, j int) bool { return fcs[i].c > fcs[j].c })
	fe := map[string]int64{}
	for i, f := range fcs {
		if i >= 120 {
			break
		}
		fe[f.n] = f.c
	}
	hs := []map[string]interface{}{}
	for _, st := range allStats {
		hs = append(hs, map[string]interface{}{"name": st.Name, "paths": st.Paths, "pruned_infeasible": st.Pruned, "unsupported": st.Unsupported,
			"over_budget": st.OverBudget, "solver_unknown": st.Unknown, "decisions": st.Decisions, "assert_obligations": st.Asserts,
			"max_steps": st.MaxSteps, "max_alloc_bytes": st.MaxAlloc, "assert_ids": st.AssertIDs, "reach": st.Reach, "exhaustive": st.Exhaustive,
			"violations": len(st.Violations), "wall_s": st.WallS, "unsupported_msgs": st.UnsupportedMsgs})
	}
	if len(samples) == 0 {
		samples = append(samples, map[string]interface{}{"note": "no complete path"})
	}
	ev := map[string]interface{}{
		"property_id": prop, "tier": tier, "seed": seed, "level": "model_checking", "wall_s": time.Since(t0).Seconds(), "violations": nviol,
		"coverage": map[string]interface{}{
			"states": states, "transitions": transitions, "traces_validated_against_impl": validated, "samples": samples,
			"exhaustive": exhaustive && len(inconclusive) == 0,
			"rule":        "state = one feasible symbolic path of a harness explored to completion (stands for all input values satisfying its path condition); transition = one symbolic branch/shape decision; every assertion on a path is discharged by an SMT query pc ∧ ¬assertion (unsat) or by exhaustive evaluation over a variable's 256-value domain",
			"harnesses":   hs, "functions_encoded": fe, "bounds": bounds,
			"queries":     map[string]int{"sat": sat, "unsat": unsat, "unknown": unknown},
			"solver_s":    map[string]float64{solverKind: solverS}, "stubs_hit": stubs, "ssa_load_s": loadS,
			"known_findings_seen": knownSeen, "inconclusive": inconclusive, "outside_claim": pc.Outside,
		},
		"assumptions": append(append([]string{}, pc.Assumptions...), pc.Stubs...),
	}
	writeEvidence(ev)
	for _, m := range inconclusive {
		fmt.Fprintln(os.Stderr, "INCONCLUSIVE:", m)
	}
	fmt.Fprintf(os.Stderr, "[%s %s] states=%d transitions=%d validated=%d violations=%d known=%d inconclusive=%d wall=%.1fs\n", prop, tier, states, transitions, validated, nviol, len(knownSeen), len(inconclusive), time.Since(t0).Seconds())
	if nviol > 0 {
		return 1
	}
	if len(inconclusive) > 0 {
		return 2
	}
	return 0
}

func sanitize(s string) string {
	return regexp.MustCompile(`[^A-Za-z0-9_.-]`).ReplaceAllString(s, "_")
}

func compactInputs(m map[string]uint64) string {
	keys := make([]string, 0, len(m))
	for k := range m {
		keys = append(keys, k)
	}
	sort.Strings(keys)
	var sb strings.Builder
	for i, k := range keys {
		if i > 24 {
			sb.WriteString(" …")
			break
		}
		fmt.Fprintf(&sb, "%s=%d ", k, m[k])
	}
	return strings.TrimSpace(sb.String())
}
