package main

// Crypto stubs: hash / HMAC objects record the exact octets written; Sum returns the real digest
// when the input is concrete and fresh symbolic digest octets otherwise, tied to earlier digests
// of the same primitive by "equal input <=> equal digest" (ideal, collision-free primitive).

import (
	"crypto/hmac"
	"crypto/sha1"
	"crypto/sha256"
	"crypto/sha512"
	"fmt"
	"go/types"
	"hash"
	"strings"
)

type hashState struct {
	alg string
	key []value
	buf []value
}

type hashRecord struct {
	alg    string
	key    []value
	input  []value
	digest []value
}

func hashSize(alg string) int {
	switch alg {
	case "sha1":
		return 20
	case "sha224":
		return 28
	case "sha256":
		return 32
	case "sha384":
		return 48
	case "sha512":
		return 64
	}
	return 32
}

func nativeHash(alg string) func() hash.Hash {
	switch alg {
	case "sha1":
		return sha1.New
	case "sha224":
		return sha256.New224
	case "sha256":
		return sha256.New
	case "sha384":
		return sha512.New384
	case "sha512":
		return sha512.New
	}
	return nil
}

func (in *Interp) newHash(alg string, key []value) value {
	in.stubs["hash:"+alg]++
	return iface{t: types.Typ[types.UnsafePointer], v: &native{kind: "hash", obj: &hashState{alg: alg, key: key}}}
}

func concreteBytes(vs []value) ([]byte, bool) {
	b := make([]byte, len(vs))
	for i, v := range vs {
		c, ok := v.(uint64)
		if !ok {
			return nil, false
		}
		b[i] = byte(c)
	}
	return b, true
}

func sameValues(a, b []value) bool {
	if len(a) != len(b) {
		return false
	}
	for i := range a {
		if a[i] != b[i] {
			return false
		}
	}
	return true
}

// digestOf returns the digest of input under (alg,key).
func (in *Interp) digestOf(alg string, key, input []value) []value {
	return in.digestOfN(alg, key, input, hashSize(alg))
}

// digestOfN: digest (or, for alg "sig:<scheme>", ideal deterministic signature) of n octets.
func (in *Interp) digestOfN(alg string, key, input []value, n int) []value {
	if ib, ok := concreteBytes(input); ok {
		if kb, ok2 := concreteBytes(key); ok2 {
			if strings.HasPrefix(alg, "sig:") {
				// all-concrete pseudo signature: expand SHA-512(alg || key || input) to n octets
				out := make([]value, 0, n)
				for ctr := 0; len(out) < n; ctr++ {
					h := sha512.New()
					h.Write([]byte{byte(ctr)})
					h.Write([]byte(alg))
					h.Write([]byte{0, byte(len(kb) >> 8), byte(len(kb))})
					h.Write(kb)
					h.Write(ib)
					for _, c := range h.Sum(nil) {
						if len(out) < n {
							out = append(out, uint64(c))
						}
					}
				}
				if out[0] == uint64(0) {
					out[0] = uint64(1)
				}
				return out
			}
			var h hash.Hash
			if key != nil {
				h = hmac.New(nativeHash(alg), kb)
			} else {
				h = nativeHash(alg)()
			}
			h.Write(ib)
			d := h.Sum(nil)
			out := make([]value, len(d))
			for i, c := range d {
				out[i] = uint64(c)
			}
			return out
		}
	}
	recs, _ := in.natives["hashrecs"].([]*hashRecord)
	for _, r := range recs {
		if r.alg == alg && sameValues(r.key, key) && sameValues(r.input, input) {
			return r.digest
		}
	}
	if in.noFork > 0 {
		panic(mergeAbort{})
	}
	id := len(recs)
	d := make([]value, n)
	for i := range d {
		d[i] = in.freshVar(fmt.Sprintf("digest%d.%d", id, i), 8)
	}
	rec := &hashRecord{alg: alg, key: key, input: append([]value(nil), input...), digest: d}
	// ideal primitive: equal (key,input) <=> equal digest, against every earlier record of the same shape
	ts := in.ts
	for _, r := range recs {
		if r.alg != alg || len(r.digest) != n {
			continue
		}
		if _, conc := concreteBytes(r.digest); conc {
			continue
		}
		if len(r.input) != len(input) || len(r.key) != len(key) {
			// ideal primitive: inputs of different length never collide
			neq := ts.False
			for i := range d {
				neq = ts.Or(neq, ts.Not(ts.Eq(in.toTerm(r.digest[i], 8), in.toTerm(d[i], 8))))
			}
			in.assume(norm(neq))
			continue
		}
		eqIn := ts.True
		for i := range input {
			eqIn = ts.And(eqIn, ts.Eq(in.toTerm(r.input[i], 8), in.toTerm(input[i], 8)))
		}
		for i := range key {
			eqIn = ts.And(eqIn, ts.Eq(in.toTerm(r.key[i], 8), in.toTerm(key[i], 8)))
		}
		eqD := ts.True
		for i := range d {
			eqD = ts.And(eqD, ts.Eq(in.toTerm(r.digest[i], 8), in.toTerm(d[i], 8)))
		}
		in.assume(norm(ts.Eq(eqIn, eqD)))
	}
	recs = append(recs, rec)
	in.natives["hashrecs"] = recs
	return d
}

func init() {
	nativeMethods["hash.Write"] = func(in *Interp, fr *frame, recv *native, args []value) value {
		hs := recv.obj.(*hashState)
		b := args[0].([]value)
		hs.buf = append(hs.buf, b...)
		return tuple{uint64(len(b)), iface{}}
	}
	nativeMethods["hash.Reset"] = func(in *Interp, fr *frame, recv *native, args []value) value {
		recv.obj.(*hashState).buf = nil
		return nil
	}
	nativeMethods["hash.Size"] = func(in *Interp, fr *frame, recv *native, args []value) value {
		return uint64(hashSize(recv.obj.(*hashState).alg))
	}
	nativeMethods["hash.BlockSize"] = func(in *Interp, fr *frame, recv *native, args []value) value {
		return uint64(64)
	}
	nativeMethods["hash.Sum"] = func(in *Interp, fr *frame, recv *native, args []value) value {
		hs := recv.obj.(*hashState)
		d := in.digestOf(hs.alg, hs.key, hs.buf)
		prefix, _ := args[0].([]value)
		out := make([]value, 0, len(prefix)+len(d))
		out = append(out, prefix...)
		out = append(out, d...)
		return out
	}
	mk := func(alg string) externFn {
		return func(in *Interp, fr *frame, args []value) value { return in.newHash(alg, nil) }
	}
	externals["crypto/sha1.New"] = mk("sha1")
	externals["crypto/sha256.New"] = mk("sha256")
	externals["crypto/sha256.New224"] = mk("sha224")
	externals["crypto/sha512.New"] = mk("sha512")
	externals["crypto/sha512.New384"] = mk("sha384")
	externals["(crypto.Hash).New"] = func(in *Interp, fr *frame, args []value) value {
		switch args[0].(uint64) {
		case 3:
			return in.newHash("sha1", nil)
		case 4:
			return in.newHash("sha224", nil)
		case 5:
			return in.newHash("sha256", nil)
		case 6:
			return in.newHash("sha384", nil)
		case 7:
			return in.newHash("sha512", nil)
		}
		panic(in.unsupported("crypto.Hash(%v).New", args[0]))
	}
	externals["(crypto.Hash).Available"] = func(in *Interp, fr *frame, args []value) value { return true }
	externals["crypto/hmac.New"] = func(in *Interp, fr *frame, args []value) value {
		// args[0] is the hash constructor (func() hash.Hash); identify the algorithm by calling it
		h := in.call(fr, args[0], nil, nil).(iface)
		alg := h.v.(*native).obj.(*hashState).alg
		key := append([]value{}, args[1].([]value)...)
		return in.newHash(alg, key)
	}
	externals["crypto/hmac.Equal"] = func(in *Interp, fr *frame, args []value) value {
		return in.strEq(strFromBytes(args[0].([]value)), strFromBytes(args[1].([]value)))
	}
	externals["crypto/subtle.ConstantTimeCompare"] = func(in *Interp, fr *frame, args []value) value {
		e := in.strEq(strFromBytes(args[0].([]value)), strFromBytes(args[1].([]value)))
		switch e := e.(type) {
		case bool:
			return b2u(e)
		case *Term:
			return norm(in.ts.Ite(e, in.ts.Const(64, 1), in.ts.Const(64, 0)))
		}
		return uint64(0)
	}
	// harness seam: reference digest / MAC of reference octets (native: real crypto)
	externals[hname("vHash")] = func(in *Interp, fr *frame, args []value) value {
		alg := cstr(args[0])
		return in.digestOf(alg, nil, args[1].([]value))
	}
	externals[hname("vHMAC")] = func(in *Interp, fr *frame, args []value) value {
		alg := cstr(args[0])
		key := append([]value{}, args[1].([]value)...)
		return in.digestOf(alg, key, args[2].([]value))
	}
}

// ---------- signatures (ideal, deterministic, unforgeable) and math/big as opaque octet strings ----------
//
// A signature over digest d under public key k and scheme s is digestOfN("sig:"+s, k, d, n): fresh
// symbolic octets tied to every other signature of the same scheme by "equal (key,digest) <=> equal
// signature". Verification succeeds iff the presented signature equals the ideal signature for the
// presented key and digest. Key identity is the canonical public key octets (RSA: E as 4 octets || N;
// ECDSA: X || Y left-padded to the curve size; Ed25519: the 32 key octets).

func bigBytes(in *Interp, p value) []value {
	ptr, ok := p.(*value)
	if !ok || ptr == nil {
		in.targetPanicStr("runtime error: invalid memory address or nil pointer dereference")
	}
	st := (*ptr).(structV)
	b, _ := st[1].([]value)
	return b
}

// stripZeros removes leading zero octets; a symbolic octet forks (at most maxFork times, then assumed non-zero).
func (in *Interp) stripZeros(b []value, maxFork int) []value {
	forks := 0
	for len(b) > 0 {
		switch c := b[0].(type) {
		case uint64:
			if c != 0 {
				return b
			}
			b = b[1:]
			continue
		case *Term:
			z := in.ts.Eq(c, in.ts.Const(8, 0))
			if forks >= maxFork {
				in.assume(norm(in.ts.Not(z)))
				return b
			}
			forks++
			if in.decide(z, "big.leadingzero") {
				b = b[1:]
				continue
			}
			return b
		}
		return b
	}
	return b
}

func padLeft(b []value, n int) ([]value, bool) {
	if len(b) > n {
		return nil, false
	}
	out := make([]value, 0, n)
	for i := len(b); i < n; i++ {
		out = append(out, uint64(0))
	}
	return append(out, b...), true
}

func sigScheme(alg uint64, hashID uint64) (string, bool) {
	switch alg {
	case 5, 7, 8, 10:
		return fmt.Sprintf("rsa-h%d", hashID), true
	case 13:
		return "ecdsa-P256", true
	case 14:
		return "ecdsa-P384", true
	case 15:
		return "ed25519", true
	}
	return "", false
}

func (in *Interp) bytesEqTerm(a, b []value) value {
	return in.strEq(strFromBytes(a), strFromBytes(b))
}

func init() {
	ext := externals
	ext["(*math/big.Int).SetBytes"] = func(in *Interp, fr *frame, args []value) value {
		ptr := args[0].(*value)
		b := append([]value(nil), args[1].([]value)...)
		in.store(ptr, structV{false, b})
		in.stubs["math/big.Int(opaque octets)"]++
		return ptr
	}
	ext["(*math/big.Int).Bytes"] = func(in *Interp, fr *frame, args []value) value {
		b := in.stripZeros(bigBytes(in, args[0]), 1)
		return append([]value(nil), b...)
	}
	ext["crypto/elliptic.P256"] = func(in *Interp, fr *frame, args []value) value {
		return iface{t: types.Typ[types.UnsafePointer], v: &native{kind: "curve", obj: "P256"}}
	}
	ext["crypto/elliptic.P384"] = func(in *Interp, fr *frame, args []value) value {
		return iface{t: types.Typ[types.UnsafePointer], v: &native{kind: "curve", obj: "P384"}}
	}
	// harness seam: Signer.Sign of the fixed test key. args: alg, hashID, canonical public key, digest
	ext[hname("vSignDigest")] = func(in *Interp, fr *frame, args []value) value {
		alg, hid := args[0].(uint64), args[1].(uint64)
		pub := append([]value(nil), args[2].([]value)...)
		dig := append([]value(nil), args[3].([]value)...)
		scheme, ok := sigScheme(alg, hid)
		if !ok {
			panic(in.unsupported("vSignDigest: algorithm %d", alg))
		}
		in.stubs["sign:"+scheme]++
		switch alg {
		case 13, 14:
			n := 64
			if alg == 14 {
				n = 96
			}
			rs := in.digestOfN("sig:"+scheme, pub, dig, n)
			// at most one leading zero octet in R and in S (stated assumption)
			for _, i := range []int{1, n/2 + 1} {
				if t, isT := rs[i].(*Term); isT {
					in.assume(norm(in.ts.Not(in.ts.Eq(t, in.ts.Const(8, 0)))))
				}
			}
			// opaque DER stand-in understood by the asn1.Unmarshal stub
			out := []value{uint64(0x30), uint64(0xEC), alg}
			return append(out, rs...)
		case 15:
			return in.digestOfN("sig:"+scheme, pub, dig, 64)
		}
		// RSA: signature as long as the modulus (canonical key = 4 octets E || N)
		return in.digestOfN("sig:"+scheme, pub, dig, len(pub)-4)
	}
	ext[hname("vSignWire")] = func(in *Interp, fr *frame, args []value) value {
		alg, hid := args[0].(uint64), args[1].(uint64)
		pub := append([]value(nil), args[2].([]value)...)
		dig := append([]value(nil), args[3].([]value)...)
		scheme, ok := sigScheme(alg, hid)
		if !ok {
			panic(in.unsupported("vSignWire: algorithm %d", alg))
		}
		in.stubs["sign:"+scheme]++
		n := 64
		switch alg {
		case 14:
			n = 96
		case 5, 7, 8, 10:
			n = len(pub) - 4
		}
		return in.digestOfN("sig:"+scheme, pub, dig, n)
	}
	ext[hname("vVerifyWire")] = func(in *Interp, fr *frame, args []value) value {
		alg, hid := args[0].(uint64), args[1].(uint64)
		pub := append([]value(nil), args[2].([]value)...)
		dig := append([]value(nil), args[3].([]value)...)
		sig := args[4].([]value)
		scheme, ok := sigScheme(alg, hid)
		if !ok {
			return false
		}
		n := 64
		switch alg {
		case 14:
			n = 96
		case 5, 7, 8, 10:
			n = len(pub) - 4
		}
		if len(sig) != n {
			return false
		}
		return in.bytesEqTerm(in.digestOfN("sig:"+scheme, pub, dig, n), sig)
	}
	ext["encoding/asn1.Unmarshal"] = func(in *Interp, fr *frame, args []value) value {
		b := args[0].([]value)
		if len(b) < 3 || b[0] != value(uint64(0x30)) || b[1] != value(uint64(0xEC)) {
			panic(in.unsupported("asn1.Unmarshal of anything but the ECDSA signature stand-in"))
		}
		rs := b[3:]
		dst := args[1].(iface).v.(*value)
		st := (*dst).(structV)
		mk := func(x []value) *value {
			var cell value = structV{false, append([]value(nil), x...)}
			return &cell
		}
		nst := structV{mk(rs[:len(rs)/2]), mk(rs[len(rs)/2:])}
		_ = st
		in.store(dst, nst)
		return tuple{[]value(nil), iface{}}
	}
	ext["crypto/rsa.VerifyPKCS1v15"] = func(in *Interp, fr *frame, args []value) value {
		pk := args[0].(*value)
		if pk == nil {
			in.targetPanicStr("runtime error: invalid memory address or nil pointer dereference")
		}
		st := (*pk).(structV)
		nb := in.stripZeros(bigBytes(in, st[0]), 0)
		e := st[1]
		var eb []value
		for sh := 24; sh >= 0; sh -= 8 {
			switch ev := e.(type) {
			case uint64:
				eb = append(eb, (ev>>uint(sh))&0xff)
			case *Term:
				eb = append(eb, norm(in.ts.Extract(ev, uint8(sh), 8)))
			}
		}
		key := append(eb, nb...)
		hid := args[1].(uint64)
		scheme := fmt.Sprintf("rsa-h%d", hid)
		in.stubs["verify:"+scheme]++
		sig := args[3].([]value)
		bad := in.newError(mkstr("crypto/rsa: verification error"))
		if len(sig) != len(nb) {
			return bad
		}
		want := in.digestOfN("sig:"+scheme, key, append([]value(nil), args[2].([]value)...), len(nb))
		if in.decideV(in.bytesEqTerm(want, sig), "rsa.verify") {
			return iface{}
		}
		return bad
	}
	ext["crypto/ecdsa.Verify"] = func(in *Interp, fr *frame, args []value) value {
		pk := args[0].(*value)
		st := (*pk).(structV)
		curve := st[0].(iface).v.(*native).obj.(string)
		n := 64
		if curve == "P384" {
			n = 96
		}
		in.stubs["verify:ecdsa-"+curve]++
		x, ok1 := padLeft(in.stripZeros(bigBytes(in, st[1]), 1), n/2)
		y, ok2 := padLeft(in.stripZeros(bigBytes(in, st[2]), 1), n/2)
		r, ok3 := padLeft(in.stripZeros(bigBytes(in, args[2]), 1), n/2)
		s, ok4 := padLeft(in.stripZeros(bigBytes(in, args[3]), 1), n/2)
		if !(ok1 && ok2 && ok3 && ok4) {
			return false
		}
		key := append(append([]value(nil), x...), y...)
		want := in.digestOfN("sig:ecdsa-"+curve, key, append([]value(nil), args[1].([]value)...), n)
		return in.decideV(in.bytesEqTerm(want, append(append([]value(nil), r...), s...)), "ecdsa.verify")
	}
	ext["crypto/ed25519.Verify"] = func(in *Interp, fr *frame, args []value) value {
		pub := args[0].([]value)
		if len(pub) != 32 {
			in.targetPanicStr("ed25519: bad public key length")
		}
		in.stubs["verify:ed25519"]++
		sig := args[2].([]value)
		if len(sig) != 64 {
			return false
		}
		want := in.digestOfN("sig:ed25519", append([]value(nil), pub...), append([]value(nil), args[1].([]value)...), 64)
		return in.decideV(in.bytesEqTerm(want, sig), "ed25519.verify")
	}
}

// decideV decides a bool-or-term condition (forking when symbolic).
func (in *Interp) decideV(c value, why string) bool {
	switch c := c.(type) {
	case bool:
		return c
	case *Term:
		return in.decide(c, why)
	}
	panic("decideV")
}

// ---------- base64: decode(encode(B)) = B at term level ----------
//
// Encoding symbolic octets produces one table-lookup term per digit; decoding those digits again through
// the library's validity checks and reverse table is expensive for the solver although the result is B by
// construction. Encoders (the std one and the harness reference encoder) record (digits, source); a decode
// of exactly those digit terms returns the recorded source. Anything else takes the interpreted path.

type b64rec struct{ chars, src []value }

func (in *Interp) noteB64(chars, src []value) {
	if _, conc := concreteBytes(chars); conc {
		return
	}
	recs, _ := in.natives["b64"].([]*b64rec)
	in.natives["b64"] = append(recs, &b64rec{append([]value(nil), chars...), append([]value(nil), src...)})
}

func (in *Interp) b64Source(chars []value) ([]value, bool) {
	recs, _ := in.natives["b64"].([]*b64rec)
	for _, r := range recs {
		if sameValues(r.chars, chars) {
			return r.src, true
		}
	}
	return nil, false
}

func init() {
	ext := externals
	ext[hname("vNoteBase64")] = func(in *Interp, fr *frame, args []value) value {
		in.noteB64(args[0].(str).bytes(), args[1].([]value))
		return nil
	}
	ext[hname("vBase64Source")] = func(in *Interp, fr *frame, args []value) value {
		if src, ok := in.b64Source(args[0].(str).bytes()); ok {
			return tuple{append([]value(nil), src...), true}
		}
		return tuple{[]value(nil), false}
	}
	ext["(*encoding/base64.Encoding).EncodeToString"] = func(in *Interp, fr *frame, args []value) value {
		r := in.runBody(fr, args)
		if src, ok := args[1].([]value); ok {
			in.noteB64(r.(str).bytes(), src)
		}
		return r
	}
	ext["(*encoding/base64.Encoding).Decode"] = func(in *Interp, fr *frame, args []value) value {
		dst, _ := args[1].([]value)
		src, _ := args[2].([]value)
		if b, ok := in.b64Source(src); ok && len(dst) >= len(b) {
			in.stubs["base64 decode(encode(x)) = x"]++
			for i := range b {
				in.store(&dst[i], b[i])
			}
			return tuple{uint64(len(b)), iface{}}
		}
		return in.runBody(fr, args)
	}
}
