package main

// Crypto stubs: hash / HMAC objects record the exact octets written; Sum returns the real digest
// when the input is concrete and fresh symbolic digest octets otherwise, tied to earlier digests
// of the same primitive by "equal input <=> equal digest" (ideal, collision-free primitive).

import (
	"crypto/hmac"
	"crypto/sha1"
	"crypto/sha256"
	"crypto/sha512"
	"fmt"
	"go/types"
	"hash"
)

type hashState struct {
	alg string
	key []value
	buf []value
}

type hashRecord struct {
	alg    string
	key    []value
	input  []value
	digest []value
}

func hashSize(alg string) int {
	switch alg {
	case "sha1":
		return 20
	case "sha224":
		return 28
	case "sha256":
		return 32
	case "sha384":
		return 48
	case "sha512":
		return 64
	}
	return 32
}

func nativeHash(alg string) func() hash.Hash {
	switch alg {
	case "sha1":
		return sha1.New
	case "sha224":
		return sha256.New224
	case "sha256":
		return sha256.New
	case "sha384":
		return sha512.New384
	case "sha512":
		return sha512.New
	}
	return nil
}

func (in *Interp) newHash(alg string, key []value) value {
	in.stubs["hash:"+alg]++
	return iface{t: types.Typ[types.UnsafePointer], v: &native{kind: "hash", obj: &hashState{alg: alg, key: key}}}
}

func concreteBytes(vs []value) ([]byte, bool) {
	b := make([]byte, len(vs))
	for i, v := range vs {
		c, ok := v.(uint64)
		if !ok {
			return nil, false
		}
		b[i] = byte(c)
	}
	return b, true
}

func sameValues(a, b []value) bool {
	if len(a) != len(b) {
		return false
	}
	for i := range a {
		if a[i] != b[i] {
			return false
		}
	}
	return true
}

// digestOf returns the digest of input under (alg,key).
func (in *Interp) digestOf(alg string, key, input []value) []value {
	if ib, ok := concreteBytes(input); ok {
		if kb, ok2 := concreteBytes(key); ok2 {
			var h hash.Hash
			if key != nil {
				h = hmac.New(nativeHash(alg), kb)
			} else {
				h = nativeHash(alg)()
			}
			h.Write(ib)
			d := h.Sum(nil)
			out := make([]value, len(d))
			for i, c := range d {
				out[i] = uint64(c)
			}
			return out
		}
	}
	recs, _ := in.natives["hashrecs"].([]*hashRecord)
	for _, r := range recs {
		if r.alg == alg && sameValues(r.key, key) && sameValues(r.input, input) {
			return r.digest
		}
	}
	if in.noFork > 0 {
		panic(mergeAbort{})
	}
	n := hashSize(alg)
	id := len(recs)
	d := make([]value, n)
	for i := range d {
		d[i] = in.freshVar(fmt.Sprintf("digest%d.%d", id, i), 8)
	}
	rec := &hashRecord{alg: alg, key: key, input: append([]value(nil), input...), digest: d}
	// ideal primitive: equal (key,input) <=> equal digest, against every earlier record of the same shape
	ts := in.ts
	for _, r := range recs {
		if r.alg != alg || len(r.input) != len(input) || len(r.key) != len(key) {
			continue
		}
		if _, conc := concreteBytes(r.digest); conc {
			continue
		}
		eqIn := ts.True
		for i := range input {
			eqIn = ts.And(eqIn, ts.Eq(in.toTerm(r.input[i], 8), in.toTerm(input[i], 8)))
		}
		for i := range key {
			eqIn = ts.And(eqIn, ts.Eq(in.toTerm(r.key[i], 8), in.toTerm(key[i], 8)))
		}
		eqD := ts.True
		for i := range d {
			eqD = ts.And(eqD, ts.Eq(in.toTerm(r.digest[i], 8), in.toTerm(d[i], 8)))
		}
		in.assume(norm(ts.Eq(eqIn, eqD)))
	}
	recs = append(recs, rec)
	in.natives["hashrecs"] = recs
	return d
}

func init() {
	nativeMethods["hash.Write"] = func(in *Interp, fr *frame, recv *native, args []value) value {
		hs := recv.obj.(*hashState)
		b := args[0].([]value)
		hs.buf = append(hs.buf, b...)
		return tuple{uint64(len(b)), iface{}}
	}
	nativeMethods["hash.Reset"] = func(in *Interp, fr *frame, recv *native, args []value) value {
		recv.obj.(*hashState).buf = nil
		return nil
	}
	nativeMethods["hash.Size"] = func(in *Interp, fr *frame, recv *native, args []value) value {
		return uint64(hashSize(recv.obj.(*hashState).alg))
	}
	nativeMethods["hash.BlockSize"] = func(in *Interp, fr *frame, recv *native, args []value) value {
		return uint64(64)
	}
	nativeMethods["hash.Sum"] = func(in *Interp, fr *frame, recv *native, args []value) value {
		hs := recv.obj.(*hashState)
		d := in.digestOf(hs.alg, hs.key, hs.buf)
		prefix, _ := args[0].([]value)
		out := make([]value, 0, len(prefix)+len(d))
		out = append(out, prefix...)
		out = append(out, d...)
		return out
	}
	mk := func(alg string) externFn {
		return func(in *Interp, fr *frame, args []value) value { return in.newHash(alg, nil) }
	}
	externals["crypto/sha1.New"] = mk("sha1")
	externals["crypto/sha256.New"] = mk("sha256")
	externals["crypto/sha256.New224"] = mk("sha224")
	externals["crypto/sha512.New"] = mk("sha512")
	externals["crypto/sha512.New384"] = mk("sha384")
	externals["(crypto.Hash).New"] = func(in *Interp, fr *frame, args []value) value {
		switch args[0].(uint64) {
		case 3:
			return in.newHash("sha1", nil)
		case 4:
			return in.newHash("sha224", nil)
		case 5:
			return in.newHash("sha256", nil)
		case 6:
			return in.newHash("sha384", nil)
		case 7:
			return in.newHash("sha512", nil)
		}
		panic(in.unsupported("crypto.Hash(%v).New", args[0]))
	}
	externals["(crypto.Hash).Available"] = func(in *Interp, fr *frame, args []value) value { return true }
	externals["crypto/hmac.New"] = func(in *Interp, fr *frame, args []value) value {
		// args[0] is the hash constructor (func() hash.Hash); identify the algorithm by calling it
		h := in.call(fr, args[0], nil, nil).(iface)
		alg := h.v.(*native).obj.(*hashState).alg
		key := append([]value{}, args[1].([]value)...)
		return in.newHash(alg, key)
	}
	externals["crypto/hmac.Equal"] = func(in *Interp, fr *frame, args []value) value {
		return in.strEq(strFromBytes(args[0].([]value)), strFromBytes(args[1].([]value)))
	}
	externals["crypto/subtle.ConstantTimeCompare"] = func(in *Interp, fr *frame, args []value) value {
		e := in.strEq(strFromBytes(args[0].([]value)), strFromBytes(args[1].([]value)))
		switch e := e.(type) {
		case bool:
			return b2u(e)
		case *Term:
			return norm(in.ts.Ite(e, in.ts.Const(64, 1), in.ts.Const(64, 0)))
		}
		return uint64(0)
	}
	// harness seam: reference digest / MAC of reference octets (native: real crypto)
	externals[hname("vHash")] = func(in *Interp, fr *frame, args []value) value {
		alg := cstr(args[0])
		return in.digestOf(alg, nil, args[1].([]value))
	}
	externals[hname("vHMAC")] = func(in *Interp, fr *frame, args []value) value {
		alg := cstr(args[0])
		key := append([]value{}, args[1].([]value)...)
		return in.digestOf(alg, key, args[2].([]value))
	}
}
