package main

import (
	"fmt"
	"go/constant"
	"go/types"
	"unicode/utf8"

	"golang.org/x/tools/go/ssa"
)

func constStringVal(c *ssa.Const) string {
	if c.Value.Kind() == constant.String {
		return constant.StringVal(c.Value)
	}
	// int -> string constant conversion
	if i, ok := constant.Int64Val(c.Value); ok {
		return string(rune(i))
	}
	return c.Value.String()
}

func decodeRune(s string) (rune, int) { return utf8.DecodeRuneInString(s) }

func constIntBits(c *ssa.Const, w uint8) uint64 {
	v := constant.ToInt(c.Value)
	if i, ok := constant.Int64Val(v); ok {
		return uint64(i) & mask(w)
	}
	if u, ok := constant.Uint64Val(v); ok {
		return u & mask(w)
	}
	panic(fmt.Sprintf("constant %v does not fit", c))
}

func (in *Interp) callBuiltin(caller *frame, fn *ssa.Builtin, args []value, site ssa.Instruction) value {
	switch fn.Name() {
	case "append":
		if len(args) == 1 {
			return args[0]
		}
		dst, _ := args[0].([]value)
		var src []value
		switch s := args[1].(type) {
		case str:
			src = s.bytes()
		case []value:
			src = s
		}
		if len(src) == 0 {
			return args[0]
		}
		n := len(dst) + len(src)
		if n <= cap(dst) {
			r := dst[:n]
			for i, v := range src {
				in.store(&r[len(dst)+i], copyVal(v))
			}
			return r
		}
		nc := cap(dst) * 2
		if nc < n {
			nc = n
		}
		if nc < 8 {
			nc = 8
		}
		r := make([]value, n, nc)
		copy(r, dst)
		for i, v := range src {
			r[len(dst)+i] = copyVal(v)
		}
		// zero the spare capacity lazily: cells beyond len are nil; reslicing up to cap must see zero values
		if nc > n {
			var elemT types.Type
			if call, ok := site.(ssa.CallInstruction); ok {
				elemT = call.Common().Args[0].Type().Underlying().(*types.Slice).Elem()
			}
			if elemT != nil {
				z := zero(elemT)
				full := r[:nc]
				switch z.(type) {
				case structV, arrayV:
					for i := n; i < nc; i++ {
						full[i] = zero(elemT)
					}
				default:
					for i := n; i < nc; i++ {
						full[i] = z
					}
				}
				in.alloc += int64(nc) * in.sizeof(elemT)
			}
		}
		return r
	case "copy":
		dst := args[0].([]value)
		var src []value
		switch s := args[1].(type) {
		case str:
			src = s.bytes()
		case []value:
			src = s
		}
		n := min(len(dst), len(src))
		// handle overlap like memmove
		if n > 0 && len(src) > 0 && len(dst) > 0 && &dst[0] != &src[0] {
			tmp := make([]value, n)
			copy(tmp, src[:n])
			src = tmp
		}
		for i := 0; i < n; i++ {
			in.store(&dst[i], copyVal(src[i]))
		}
		return uint64(n)
	case "close":
		in.chanClose(args[0].(*chanV))
		return nil
	case "delete":
		m := args[0].(*omap)
		if m != nil {
			in.mapDelete(m, args[1])
		}
		return nil
	case "clear":
		switch x := args[0].(type) {
		case *omap:
			if x != nil {
				for i := range x.keys {
					if !x.dead[i] {
						in.mapDelete(x, x.keys[i])
					}
				}
			}
		case []value:
			if call, ok := site.(ssa.CallInstruction); ok {
				elemT := call.Common().Args[0].Type().Underlying().(*types.Slice).Elem()
				for i := range x {
					in.store(&x[i], zero(elemT))
				}
			}
		}
		return nil
	case "print", "println":
		return nil
	case "len":
		switch x := args[0].(type) {
		case str:
			return uint64(len(x.s))
		case arrayV:
			return uint64(len(x))
		case *value:
			if x == nil {
				// len of nil *array is the array length; obtain from type
				if call, ok := site.(ssa.CallInstruction); ok {
					return uint64(deref(call.Common().Args[0].Type()).Underlying().(*types.Array).Len())
				}
			}
			return uint64(len((*x).(arrayV)))
		case []value:
			return uint64(len(x))
		case *omap:
			if x == nil {
				return uint64(0)
			}
			return uint64(x.n)
		case *chanV:
			if x == nil {
				return uint64(0)
			}
			return uint64(len(x.buf))
		}
		panic(fmt.Sprintf("len: %T", args[0]))
	case "cap":
		switch x := args[0].(type) {
		case arrayV:
			return uint64(len(x))
		case *value:
			return uint64(len((*x).(arrayV)))
		case []value:
			return uint64(cap(x))
		case *chanV:
			if x == nil {
				return uint64(0)
			}
			return uint64(x.cap)
		}
		panic(fmt.Sprintf("cap: %T", args[0]))
	case "min", "max":
		call := site.(ssa.CallInstruction)
		t := call.Common().Args[0].Type()
		acc := args[0]
		for _, a := range args[1:] {
			var tok = tokLSS
			c := in.binop(tok, t, t, a, acc) // a < acc
			pickA := c
			if fn.Name() == "max" {
				pickA = in.binop(tokGTR, t, t, a, acc)
			}
			switch p := pickA.(type) {
			case bool:
				if p {
					acc = a
				}
			case *Term:
				w, _, ok := intWidth(t)
				if !ok {
					panic(in.unsupported("min/max on symbolic non-integer"))
				}
				acc = norm(in.ts.Ite(p, in.toTerm(a, w), in.toTerm(acc, w)))
			}
		}
		return acc
	case "panic":
		panic(targetPanic{args[0]})
	case "recover":
		return in.doRecover(caller)
	case "ssa:wrapnilchk":
		recv := args[0]
		if p, ok := recv.(*value); ok && p == nil {
			in.targetPanicStr(fmt.Sprintf("value method %s.%s called using nil *%s pointer", toDebug(args[1]), toDebug(args[2]), toDebug(args[1])))
		}
		return recv
	case "ssa:deferstack":
		return nil
	case "String": // unsafe.String(ptr, len)
		p, _ := args[0].(*value)
		n := int(asInt(args[1]))
		if n == 0 {
			return str{}
		}
		s, ok := in.sliceData[p]
		if !ok || len(s) < n {
			panic(in.unsupported("unsafe.String on unknown pointer"))
		}
		return strFromBytes(s[:n])
	case "SliceData":
		s := args[0].([]value)
		if cap(s) == 0 {
			return (*value)(nil)
		}
		s = s[:cap(s)]
		in.sliceData[&s[0]] = s
		return &s[0]
	case "StringData":
		s := args[0].(str)
		if len(s.s) == 0 {
			return (*value)(nil)
		}
		bs := s.bytes()
		in.sliceData[&bs[0]] = bs
		return &bs[0]
	case "Slice": // unsafe.Slice(ptr, len)
		p, _ := args[0].(*value)
		n := int(asInt(args[1]))
		if p == nil {
			return []value(nil)
		}
		s, ok := in.sliceData[p]
		if !ok || len(s) < n {
			panic(in.unsupported("unsafe.Slice on unknown pointer"))
		}
		return s[:n:n]
	}
	panic(in.unsupported("builtin %s", fn.Name()))
}
