package main

// Terms: hash-consed DAG over Bool (w==0) and bit-vectors of width 1..64 with
// Go's wrap-around semantics, light simplification, unsigned interval
// information, concrete evaluation under a model and SMT-LIB2 printing.

import (
	"fmt"
	"math/bits"
	"strings"
)

type Op uint8

const (
	OpConst Op = iota
	OpVar
	// bool
	OpNot
	OpAnd
	OpOr
	OpEq  // bv,bv -> bool  (or bool,bool)
	OpUlt // bv,bv -> bool
	OpUle
	OpSlt
	OpSle
	OpIte // cond, a, b
	// bv
	OpAdd
	OpSub
	OpMul
	OpUDiv
	OpURem
	OpSDiv
	OpSRem
	OpBAnd
	OpBOr
	OpBXor
	OpShl
	OpLShr
	OpAShr
	OpBNot
	OpNeg
	OpZExt    // a, to width w
	OpSExt    // a, to width w
	OpExtract // a, k = lo ; width w  (hi = lo+w-1)
	OpConcat  // a (high), b (low)
)

var opSMT = map[Op]string{
	OpNot: "not", OpAnd: "and", OpOr: "or", OpEq: "=", OpUlt: "bvult", OpUle: "bvule", OpSlt: "bvslt", OpSle: "bvsle",
	OpIte: "ite", OpAdd: "bvadd", OpSub: "bvsub", OpMul: "bvmul", OpUDiv: "bvudiv", OpURem: "bvurem", OpSDiv: "bvsdiv",
	OpSRem: "bvsrem", OpBAnd: "bvand", OpBOr: "bvor", OpBXor: "bvxor", OpShl: "bvshl", OpLShr: "bvlshr", OpAShr: "bvashr",
	OpBNot: "bvnot", OpNeg: "bvneg", OpConcat: "concat",
}

type Term struct {
	op      Op
	w       uint8 // 0 = Bool
	a, b, c *Term
	k       uint64 // const value / extract lo
	name    string // var
	id      int32
	lo, hi  uint64 // unsigned range (bv) ; for bool lo/hi in {0,1}
	ev      uint64
	evEpoch uint64
	defLvl  int32 // solver scope level at which defined (-1 = not)
	size    int32
	sup2    [2]*Term // when sup == multiSup and exactly two variables are involved
	sup     *Term // nil: no variables; a Var: depends on exactly this variable; multiSup: several
}

var multiSup = &Term{op: OpVar, name: "<multi>"}

type tkey struct {
	op      Op
	w       uint8
	a, b, c int32
	k       uint64
	name    string
}

type TermStore struct {
	tab     map[tkey]*Term
	nextID  int32
	epoch   uint64
	model   map[string]uint64
	True    *Term
	False   *Term
	vars    []*Term
	varsMap map[string]*Term
	ovVar   *Term
	ovVal   uint64
	ovVar2  *Term
	ovVal2  uint64
}

// EvalWith2 evaluates t with two variables overridden.
func (ts *TermStore) EvalWith2(t *Term, v1 *Term, x1 uint64, v2 *Term, x2 uint64) uint64 {
	ts.ovVar, ts.ovVal, ts.ovVar2, ts.ovVal2 = v1, x1, v2, x2
	ts.epoch++
	r := ts.Eval(t)
	ts.ovVar, ts.ovVar2 = nil, nil
	ts.epoch++
	return r
}

// EvalWith evaluates t under the current model with variable v overridden.
func (ts *TermStore) EvalWith(t *Term, v *Term, val uint64) uint64 {
	ts.ovVar, ts.ovVal = v, val
	ts.epoch++
	r := ts.Eval(t)
	ts.ovVar = nil
	ts.epoch++
	return r
}

func NewTermStore() *TermStore {
	ts := &TermStore{tab: map[tkey]*Term{}, varsMap: map[string]*Term{}}
	ts.True = ts.mk(OpConst, 0, nil, nil, nil, 1, "")
	ts.False = ts.mk(OpConst, 0, nil, nil, nil, 0, "")
	return ts
}

func (ts *TermStore) Reset() {
	clear(ts.tab)
	clear(ts.varsMap)
	ts.vars = nil
	ts.nextID = 0
	ts.epoch++
	ts.True = ts.mk(OpConst, 0, nil, nil, nil, 1, "")
	ts.False = ts.mk(OpConst, 0, nil, nil, nil, 0, "")
}

func mask(w uint8) uint64 {
	if w >= 64 {
		return ^uint64(0)
	}
	if w == 0 {
		return 1
	}
	return (uint64(1) << w) - 1
}

func sext(v uint64, w uint8) int64 {
	if w >= 64 {
		return int64(v)
	}
	sh := 64 - uint(w)
	return int64(v<<sh) >> sh
}

func tid(t *Term) int32 {
	if t == nil {
		return -1
	}
	return t.id
}

func (ts *TermStore) mk(op Op, w uint8, a, b, c *Term, k uint64, name string) *Term {
	key := tkey{op, w, tid(a), tid(b), tid(c), k, name}
	if t, ok := ts.tab[key]; ok {
		return t
	}
	t := &Term{op: op, w: w, a: a, b: b, c: c, k: k, name: name, id: ts.nextID, defLvl: -1}
	ts.nextID++
	t.size = 1
	if a != nil {
		t.size += a.size
	}
	if b != nil {
		t.size += b.size
	}
	if c != nil {
		t.size += c.size
	}
	if t.size > 1<<28 {
		t.size = 1 << 28
	}
	if op == OpVar {
		t.sup = t
	} else {
		for _, x := range [3]*Term{a, b, c} {
			if x == nil || x.sup == nil {
				continue
			}
			if t.sup == nil {
				t.sup = x.sup
			} else if t.sup != x.sup {
				t.sup = multiSup
			}
		}
	}
	if t.sup == multiSup {
		var vs [3]*Term
		n := 0
		add := func(v *Term) {
			if v == nil || n > 2 {
				return
			}
			for i := 0; i < n && i < 3; i++ {
				if vs[i] == v {
					return
				}
			}
			if n < 3 {
				vs[n] = v
			}
			n++
		}
		for _, x := range [3]*Term{a, b, c} {
			if x == nil || x.sup == nil {
				continue
			}
			if x.sup != multiSup {
				add(x.sup)
			} else if x.sup2[0] != nil {
				add(x.sup2[0])
				add(x.sup2[1])
			} else {
				n = 9
			}
		}
		if n == 2 {
			t.sup2 = [2]*Term{vs[0], vs[1]}
		}
	}
	ts.computeRange(t)
	ts.tab[key] = t
	return t
}

func (t *Term) IsConst() bool { return t.op == OpConst }
func (t *Term) IsBool() bool  { return t.w == 0 }

func (ts *TermStore) Const(w uint8, v uint64) *Term {
	return ts.mk(OpConst, w, nil, nil, nil, v&mask(w), "")
}

func (ts *TermStore) Bool(b bool) *Term {
	if b {
		return ts.True
	}
	return ts.False
}

func (ts *TermStore) Var(name string, w uint8) *Term {
	if t, ok := ts.varsMap[name]; ok {
		if t.w != w {
			panic(fmt.Sprintf("variable %s redeclared with width %d (was %d)", name, w, t.w))
		}
		return t
	}
	t := ts.mk(OpVar, w, nil, nil, nil, 0, name)
	ts.varsMap[name] = t
	ts.vars = append(ts.vars, t)
	return t
}

func addNoWrap(a, b uint64, w uint8) (uint64, bool) {
	s, c := bits.Add64(a, b, 0)
	if c != 0 || s > mask(w) {
		return 0, false
	}
	return s, true
}

func (ts *TermStore) computeRange(t *Term) {
	m := mask(t.w)
	t.lo, t.hi = 0, m
	switch t.op {
	case OpConst:
		t.lo, t.hi = t.k, t.k
	case OpZExt:
		t.lo, t.hi = t.a.lo, t.a.hi
	case OpExtract:
		if t.k == 0 && t.a.hi <= m {
			t.lo, t.hi = t.a.lo, t.a.hi
		}
	case OpBAnd:
		t.hi = min(t.a.hi, t.b.hi)
	case OpBOr, OpBXor:
		h := t.a.hi | t.b.hi
		if h != 0 {
			n := bits.Len64(h)
			if n < 64 {
				t.hi = (uint64(1) << n) - 1
			}
		} else {
			t.hi = 0
		}
		if t.op == OpBOr {
			t.lo = max(t.a.lo, t.b.lo)
		}
	case OpAdd:
		if h, ok := addNoWrap(t.a.hi, t.b.hi, t.w); ok {
			l, _ := addNoWrap(t.a.lo, t.b.lo, t.w)
			t.lo, t.hi = l, h
		}
	case OpSub:
		if t.a.lo >= t.b.hi {
			t.lo, t.hi = t.a.lo-t.b.hi, t.a.hi-t.b.lo
		}
	case OpMul:
		h1, l1 := bits.Mul64(t.a.hi, t.b.hi)
		if h1 == 0 && l1 <= m {
			t.lo, t.hi = t.a.lo*t.b.lo, l1
		}
	case OpUDiv:
		if t.b.lo > 0 {
			t.lo, t.hi = t.a.lo/t.b.hi, t.a.hi/t.b.lo
		}
	case OpURem:
		if t.b.lo > 0 {
			t.hi = min(t.a.hi, t.b.hi-1)
		}
	case OpLShr:
		if t.b.IsConst() && t.b.k < 64 {
			t.lo, t.hi = t.a.lo>>t.b.k, t.a.hi>>t.b.k
		} else {
			t.hi = t.a.hi
		}
	case OpShl:
		if t.b.IsConst() && t.b.k < 64 {
			if bits.Len64(t.a.hi)+int(t.b.k) <= int(t.w) {
				t.lo, t.hi = t.a.lo<<t.b.k, t.a.hi<<t.b.k
			}
		}
	case OpIte:
		t.lo, t.hi = min(t.b.lo, t.c.lo), max(t.b.hi, t.c.hi)
	case OpConcat:
		t.lo = t.a.lo<<t.b.w | t.b.lo
		t.hi = t.a.hi<<t.b.w | t.b.hi
		if t.a.lo != t.a.hi {
			t.lo = t.a.lo << t.b.w
			t.hi = t.a.hi<<t.b.w | mask(t.b.w)
		}
	}
	if t.w == 0 {
		if t.op == OpConst {
			t.lo, t.hi = t.k, t.k
		} else {
			t.lo, t.hi = 0, 1
		}
	}
}

// ---------- constructors with simplification ----------

func (ts *TermStore) Not(a *Term) *Term {
	if a.IsConst() {
		return ts.Bool(a.k == 0)
	}
	switch a.op {
	case OpNot:
		return a.a
	case OpUlt: // !(x<y) = y<=x
		return ts.mk(OpUle, 0, a.b, a.a, nil, 0, "")
	case OpUle:
		return ts.mk(OpUlt, 0, a.b, a.a, nil, 0, "")
	case OpSlt:
		return ts.mk(OpSle, 0, a.b, a.a, nil, 0, "")
	case OpSle:
		return ts.mk(OpSlt, 0, a.b, a.a, nil, 0, "")
	}
	return ts.mk(OpNot, 0, a, nil, nil, 0, "")
}

func (ts *TermStore) And(a, b *Term) *Term {
	if a.IsConst() {
		if a.k == 0 {
			return ts.False
		}
		return b
	}
	if b.IsConst() {
		if b.k == 0 {
			return ts.False
		}
		return a
	}
	if a == b {
		return a
	}
	if a.id > b.id {
		a, b = b, a
	}
	return ts.mk(OpAnd, 0, a, b, nil, 0, "")
}

func (ts *TermStore) Or(a, b *Term) *Term {
	if a.IsConst() {
		if a.k == 1 {
			return ts.True
		}
		return b
	}
	if b.IsConst() {
		if b.k == 1 {
			return ts.True
		}
		return a
	}
	if a == b {
		return a
	}
	if a.id > b.id {
		a, b = b, a
	}
	return ts.mk(OpOr, 0, a, b, nil, 0, "")
}

func (ts *TermStore) Ite(c, a, b *Term) *Term {
	if c.IsConst() {
		if c.k != 0 {
			return a
		}
		return b
	}
	if a == b {
		return a
	}
	if a.w == 0 {
		if a.IsConst() && b.IsConst() {
			if a.k == 1 {
				return c
			}
			return ts.Not(c)
		}
		if a.IsConst() {
			if a.k == 1 {
				return ts.Or(c, b)
			}
			return ts.And(ts.Not(c), b)
		}
		if b.IsConst() {
			if b.k == 0 {
				return ts.And(c, a)
			}
			return ts.Or(ts.Not(c), a)
		}
	}
	if c.op == OpNot {
		return ts.mk(OpIte, a.w, c.a, b, a, 0, "")
	}
	return ts.mk(OpIte, a.w, c, a, b, 0, "")
}

func (ts *TermStore) Eq(a, b *Term) *Term {
	if a.w != b.w {
		panic(fmt.Sprintf("Eq width mismatch %d %d", a.w, b.w))
	}
	if a == b {
		return ts.True
	}
	if a.IsConst() && b.IsConst() {
		return ts.Bool(a.k == b.k)
	}
	if a.w == 0 {
		if a.IsConst() {
			a, b = b, a
		}
		if b.IsConst() {
			if b.k == 1 {
				return a
			}
			return ts.Not(a)
		}
	} else {
		if a.hi < b.lo || b.hi < a.lo {
			return ts.False
		}
		if a.IsConst() {
			a, b = b, a
		}
		if b.IsConst() {
			switch a.op {
			case OpZExt:
				if b.k > mask(a.a.w) {
					return ts.False
				}
				return ts.Eq(a.a, ts.Const(a.a.w, b.k))
			case OpIte:
				if a.b.IsConst() && a.c.IsConst() {
					// ite(c, k1, k2) == k
					e1, e2 := a.b.k == b.k, a.c.k == b.k
					switch {
					case e1 && e2:
						return ts.True
					case e1:
						return a.a
					case e2:
						return ts.Not(a.a)
					default:
						return ts.False
					}
				}
			case OpAdd:
				if a.b.IsConst() {
					return ts.Eq(a.a, ts.Const(a.w, b.k-a.b.k))
				}
			case OpBXor:
				if a.b.IsConst() {
					return ts.Eq(a.a, ts.Const(a.w, b.k^a.b.k))
				}
			}
		}
		if a.op == OpZExt && b.op == OpZExt && a.a.w == b.a.w {
			return ts.Eq(a.a, b.a)
		}
	}
	if a.id > b.id {
		a, b = b, a
	}
	return ts.mk(OpEq, 0, a, b, nil, 0, "")
}

func (ts *TermStore) Ult(a, b *Term) *Term {
	if a == b {
		return ts.False
	}
	if a.hi < b.lo {
		return ts.True
	}
	if a.lo >= b.hi {
		return ts.False
	}
	if a.op == OpZExt && b.op == OpZExt && a.a.w == b.a.w {
		return ts.Ult(a.a, b.a)
	}
	if a.op == OpZExt && b.IsConst() && b.k <= mask(a.a.w) {
		return ts.Ult(a.a, ts.Const(a.a.w, b.k))
	}
	if b.op == OpZExt && a.IsConst() && a.k <= mask(b.a.w) {
		return ts.Ult(ts.Const(b.a.w, a.k), b.a)
	}
	if b.IsConst() && b.k == 1 {
		return ts.Eq(a, ts.Const(a.w, 0))
	}
	return ts.mk(OpUlt, 0, a, b, nil, 0, "")
}

func (ts *TermStore) Ule(a, b *Term) *Term {
	if a == b {
		return ts.True
	}
	if a.hi <= b.lo {
		return ts.True
	}
	if a.lo > b.hi {
		return ts.False
	}
	if a.op == OpZExt && b.op == OpZExt && a.a.w == b.a.w {
		return ts.Ule(a.a, b.a)
	}
	if a.op == OpZExt && b.IsConst() && b.k <= mask(a.a.w) {
		return ts.Ule(a.a, ts.Const(a.a.w, b.k))
	}
	if b.op == OpZExt && a.IsConst() && a.k <= mask(b.a.w) {
		return ts.Ule(ts.Const(b.a.w, a.k), b.a)
	}
	if b.IsConst() {
		// a <= k  ==  a < k+1 (k < max because of range check above)
		return ts.Ult(a, ts.Const(a.w, b.k+1))
	}
	return ts.mk(OpUle, 0, a, b, nil, 0, "")
}

func nonNeg(t *Term) bool { return t.hi <= mask(t.w)>>1 }

func (ts *TermStore) Slt(a, b *Term) *Term {
	if a == b {
		return ts.False
	}
	if a.IsConst() && b.IsConst() {
		return ts.Bool(sext(a.k, a.w) < sext(b.k, b.w))
	}
	if nonNeg(a) && nonNeg(b) {
		return ts.Ult(a, b)
	}
	if nonNeg(a) && b.IsConst() { // b negative const
		return ts.False
	}
	if nonNeg(b) && a.IsConst() { // a negative const
		return ts.True
	}
	return ts.mk(OpSlt, 0, a, b, nil, 0, "")
}

func (ts *TermStore) Sle(a, b *Term) *Term {
	if a == b {
		return ts.True
	}
	if a.IsConst() && b.IsConst() {
		return ts.Bool(sext(a.k, a.w) <= sext(b.k, b.w))
	}
	if nonNeg(a) && nonNeg(b) {
		return ts.Ule(a, b)
	}
	if nonNeg(a) && b.IsConst() {
		return ts.False
	}
	if nonNeg(b) && a.IsConst() {
		return ts.True
	}
	return ts.mk(OpSle, 0, a, b, nil, 0, "")
}

func evalBin(op Op, w uint8, x, y uint64) uint64 {
	m := mask(w)
	switch op {
	case OpAdd:
		return (x + y) & m
	case OpSub:
		return (x - y) & m
	case OpMul:
		return (x * y) & m
	case OpUDiv:
		if y == 0 {
			return m
		}
		return x / y
	case OpURem:
		if y == 0 {
			return x
		}
		return x % y
	case OpSDiv:
		sx, sy := sext(x, w), sext(y, w)
		if sy == 0 {
			if sx >= 0 {
				return m
			}
			return 1
		}
		if sy == -1 {
			return uint64(-sx) & m
		}
		return uint64(sx/sy) & m
	case OpSRem:
		sx, sy := sext(x, w), sext(y, w)
		if sy == 0 {
			return x
		}
		if sy == -1 {
			return 0
		}
		return uint64(sx%sy) & m
	case OpBAnd:
		return x & y
	case OpBOr:
		return x | y
	case OpBXor:
		return x ^ y
	case OpShl:
		if y >= uint64(w) {
			return 0
		}
		return (x << y) & m
	case OpLShr:
		if y >= uint64(w) {
			return 0
		}
		return x >> y
	case OpAShr:
		sx := sext(x, w)
		if y >= uint64(w) {
			y = uint64(w) - 1
		}
		return uint64(sx>>y) & m
	}
	panic("evalBin")
}

func (ts *TermStore) Bin(op Op, a, b *Term) *Term {
	if a.w != b.w {
		panic(fmt.Sprintf("Bin %v width mismatch %d %d", op, a.w, b.w))
	}
	w := a.w
	if a.IsConst() && b.IsConst() {
		return ts.Const(w, evalBin(op, w, a.k, b.k))
	}
	m := mask(w)
	switch op {
	case OpAdd:
		if a.IsConst() {
			a, b = b, a
		}
		if b.IsConst() {
			if b.k == 0 {
				return a
			}
			if a.op == OpAdd && a.b.IsConst() {
				return ts.Bin(OpAdd, a.a, ts.Const(w, a.b.k+b.k))
			}
		}
		if !b.IsConst() && a.id > b.id {
			a, b = b, a
		}
	case OpSub:
		if b.IsConst() {
			return ts.Bin(OpAdd, a, ts.Const(w, -b.k))
		}
		if a == b {
			return ts.Const(w, 0)
		}
		// (x + c) - x
		if a.op == OpAdd && a.a == b {
			return a.b
		}
		if a.op == OpAdd && a.b.IsConst() && b.op == OpAdd && b.b.IsConst() && a.a == b.a {
			return ts.Const(w, a.b.k-b.b.k)
		}
	case OpMul:
		if a.IsConst() {
			a, b = b, a
		}
		if b.IsConst() {
			if b.k == 0 {
				return b
			}
			if b.k == 1 {
				return a
			}
			// zext narrowing: zext(x)*c with no overflow in some narrower width: keep
		}
	case OpUDiv, OpURem:
		if b.IsConst() && b.k != 0 {
			if op == OpUDiv && b.k == 1 {
				return a
			}
			if a.op == OpZExt && b.k <= mask(a.a.w) {
				return ts.ZExt(ts.Bin(op, a.a, ts.Const(a.a.w, b.k)), w)
			}
			if a.hi < b.k {
				if op == OpUDiv {
					return ts.Const(w, 0)
				}
				return a
			}
		}
	case OpSDiv, OpSRem:
		if nonNeg(a) && nonNeg(b) {
			if op == OpSDiv {
				return ts.Bin(OpUDiv, a, b)
			}
			return ts.Bin(OpURem, a, b)
		}
	case OpBAnd:
		if a.IsConst() {
			a, b = b, a
		}
		if b.IsConst() {
			if b.k == 0 {
				return b
			}
			if b.k == m {
				return a
			}
			if a.op == OpZExt {
				aw := a.a.w
				return ts.ZExt(ts.Bin(OpBAnd, a.a, ts.Const(aw, b.k)), w)
			}
			if a.hi <= b.k && b.k&(b.k+1) == 0 { // mask covering range
				return a
			}
		}
		if a == b {
			return a
		}
		if !b.IsConst() && a.id > b.id {
			a, b = b, a
		}
	case OpBOr, OpBXor:
		if a.IsConst() {
			a, b = b, a
		}
		if b.IsConst() && b.k == 0 {
			return a
		}
		if op == OpBOr && !a.IsConst() && !b.IsConst() {
			if r := ts.mergeSlices(a, b, w); r != nil {
				return r
			}
		}
		if a == b {
			if op == OpBOr {
				return a
			}
			return ts.Const(w, 0)
		}
		if a.op == OpZExt && b.op == OpZExt && a.a.w == b.a.w {
			return ts.ZExt(ts.Bin(op, a.a, b.a), w)
		}
		if a.op == OpZExt && b.IsConst() && b.k <= mask(a.a.w) {
			return ts.ZExt(ts.Bin(op, a.a, ts.Const(a.a.w, b.k)), w)
		}
		if !b.IsConst() && a.id > b.id {
			a, b = b, a
		}
	case OpShl, OpLShr, OpAShr:
		if b.IsConst() {
			if b.k == 0 {
				return a
			}
			if b.k >= uint64(w) && op != OpAShr {
				return ts.Const(w, 0)
			}
			if op == OpLShr && a.op == OpZExt && a.a.w > uint8(b.k) {
				// (zext x) >> k = zext(x >> k)
				return ts.ZExt(ts.Bin(OpLShr, a.a, ts.Const(a.a.w, b.k)), w)
			}
			if op == OpLShr && a.hi>>b.k == 0 {
				return ts.Const(w, 0)
			}
		}
		if op == OpAShr && nonNeg(a) {
			return ts.Bin(OpLShr, a, b)
		}
	}
	return ts.mk(op, w, a, b, nil, 0, "")
}

func (ts *TermStore) BNot(a *Term) *Term {
	if a.IsConst() {
		return ts.Const(a.w, ^a.k)
	}
	if a.op == OpBNot {
		return a.a
	}
	return ts.mk(OpBNot, a.w, a, nil, nil, 0, "")
}

func (ts *TermStore) Neg(a *Term) *Term {
	if a.IsConst() {
		return ts.Const(a.w, -a.k)
	}
	return ts.mk(OpNeg, a.w, a, nil, nil, 0, "")
}

func (ts *TermStore) ZExt(a *Term, w uint8) *Term {
	if a.w == w {
		return a
	}
	if a.w > w {
		panic("ZExt narrowing")
	}
	if a.IsConst() {
		return ts.Const(w, a.k)
	}
	if a.op == OpZExt {
		return ts.ZExt(a.a, w)
	}
	return ts.mk(OpZExt, w, a, nil, nil, 0, "")
}

func (ts *TermStore) SExt(a *Term, w uint8) *Term {
	if a.w == w {
		return a
	}
	if a.IsConst() {
		return ts.Const(w, uint64(sext(a.k, a.w)))
	}
	if nonNeg(a) {
		return ts.ZExt(a, w)
	}
	return ts.mk(OpSExt, w, a, nil, nil, 0, "")
}

// Extract bits [lo, lo+w-1].
func (ts *TermStore) Extract(a *Term, lo uint8, w uint8) *Term {
	if lo == 0 && w == a.w {
		return a
	}
	if a.IsConst() {
		return ts.Const(w, a.k>>lo)
	}
	switch a.op {
	case OpZExt:
		iw := a.a.w
		if lo >= iw {
			return ts.Const(w, 0)
		}
		if lo+w <= iw {
			return ts.Extract(a.a, lo, w)
		}
		if lo == 0 {
			return ts.ZExt(a.a, w)
		}
		return ts.ZExt(ts.Extract(a.a, lo, iw-lo), w)
	case OpSExt:
		iw := a.a.w
		if lo+w <= iw {
			return ts.Extract(a.a, lo, w)
		}
		if lo == 0 {
			return ts.SExt(a.a, w)
		}
	case OpExtract:
		return ts.Extract(a.a, uint8(a.k)+lo, w)
	case OpConcat:
		bw := a.b.w
		if lo+w <= bw {
			return ts.Extract(a.b, lo, w)
		}
		if lo >= bw {
			return ts.Extract(a.a, lo-bw, w)
		}
	case OpBAnd, OpBOr, OpBXor:
		if lo == 0 {
			return ts.Bin(a.op, ts.Extract(a.a, 0, w), ts.Extract(a.b, 0, w))
		}
	case OpAdd, OpSub, OpMul:
		if lo == 0 && (a.a.op == OpZExt || a.a.IsConst()) && (a.b.op == OpZExt || a.b.IsConst()) {
			return ts.Bin(a.op, ts.Extract(a.a, 0, w), ts.Extract(a.b, 0, w))
		}
	case OpIte:
		if a.b.IsConst() || a.c.IsConst() {
			return ts.Ite(a.a, ts.Extract(a.b, lo, w), ts.Extract(a.c, lo, w))
		}
	case OpLShr:
		if a.b.IsConst() && int(a.b.k)+int(lo)+int(w) <= int(a.w) {
			return ts.Extract(a.a, lo+uint8(a.b.k), w)
		}
	case OpShl:
		if a.b.IsConst() && lo >= uint8(a.b.k) && a.b.k < 64 {
			return ts.Extract(a.a, lo-uint8(a.b.k), w)
		}
	}
	return ts.mk(OpExtract, w, a, nil, nil, uint64(lo), "")
}

func (ts *TermStore) Concat(a, b *Term) *Term {
	w := a.w + b.w
	if a.IsConst() && b.IsConst() {
		return ts.Const(w, a.k<<b.w|b.k)
	}
	if a.IsConst() && a.k == 0 {
		return ts.ZExt(b, w)
	}
	return ts.mk(OpConcat, w, a, b, nil, 0, "")
}

// ---------- evaluation under the current model ----------

func (ts *TermStore) SetModel(m map[string]uint64) {
	ts.model = m
	ts.epoch++
}

func (ts *TermStore) Eval(t *Term) uint64 {
	if t.op == OpConst {
		return t.k
	}
	if t.evEpoch == ts.epoch {
		return t.ev
	}
	var v uint64
	switch t.op {
	case OpVar:
		if t == ts.ovVar {
			v = ts.ovVal
		} else if t == ts.ovVar2 {
			v = ts.ovVal2
		} else {
			v = ts.model[t.name] & mask(t.w)
		}
	case OpNot:
		v = ts.Eval(t.a) ^ 1
	case OpAnd:
		v = ts.Eval(t.a)
		if v != 0 {
			v = ts.Eval(t.b)
		}
	case OpOr:
		v = ts.Eval(t.a)
		if v == 0 {
			v = ts.Eval(t.b)
		}
	case OpEq:
		v = b2u(ts.Eval(t.a) == ts.Eval(t.b))
	case OpUlt:
		v = b2u(ts.Eval(t.a) < ts.Eval(t.b))
	case OpUle:
		v = b2u(ts.Eval(t.a) <= ts.Eval(t.b))
	case OpSlt:
		v = b2u(sext(ts.Eval(t.a), t.a.w) < sext(ts.Eval(t.b), t.b.w))
	case OpSle:
		v = b2u(sext(ts.Eval(t.a), t.a.w) <= sext(ts.Eval(t.b), t.b.w))
	case OpIte:
		if ts.Eval(t.a) != 0 {
			v = ts.Eval(t.b)
		} else {
			v = ts.Eval(t.c)
		}
	case OpBNot:
		v = ^ts.Eval(t.a) & mask(t.w)
	case OpNeg:
		v = -ts.Eval(t.a) & mask(t.w)
	case OpZExt:
		v = ts.Eval(t.a)
	case OpSExt:
		v = uint64(sext(ts.Eval(t.a), t.a.w)) & mask(t.w)
	case OpExtract:
		v = (ts.Eval(t.a) >> t.k) & mask(t.w)
	case OpConcat:
		v = ts.Eval(t.a)<<t.b.w | ts.Eval(t.b)
	default:
		v = evalBin(t.op, t.w, ts.Eval(t.a), ts.Eval(t.b))
	}
	t.ev = v
	t.evEpoch = ts.epoch
	return v
}

func b2u(b bool) uint64 {
	if b {
		return 1
	}
	return 0
}

// Support returns the variables a term depends on.
func (ts *TermStore) Support(t *Term, seen map[*Term]bool, out *[]*Term) {
	if t == nil || seen[t] {
		return
	}
	seen[t] = true
	if t.op == OpVar {
		*out = append(*out, t)
		return
	}
	ts.Support(t.a, seen, out)
	ts.Support(t.b, seen, out)
	ts.Support(t.c, seen, out)
}

// constants occurring in a term (for candidate generation)
func collectConsts(t *Term, seen map[*Term]bool, out map[uint64]bool) {
	if t == nil || seen[t] {
		return
	}
	seen[t] = true
	if t.op == OpConst && t.w > 0 {
		out[t.k] = true
		return
	}
	collectConsts(t.a, seen, out)
	collectConsts(t.b, seen, out)
	collectConsts(t.c, seen, out)
}

// ---------- SMT-LIB printing ----------

func sortSMT(w uint8) string {
	if w == 0 {
		return "Bool"
	}
	return fmt.Sprintf("(_ BitVec %d)", w)
}

func constSMT(w uint8, k uint64) string {
	if w == 0 {
		if k != 0 {
			return "true"
		}
		return "false"
	}
	if w%4 == 0 {
		return fmt.Sprintf("#x%0*x", int(w/4), k)
	}
	return fmt.Sprintf("#b%0*b", int(w), k)
}

func (t *Term) ref() string {
	switch t.op {
	case OpConst:
		return constSMT(t.w, t.k)
	case OpVar:
		return "|" + t.name + "|"
	}
	return fmt.Sprintf("t%d", t.id)
}

func (t *Term) body() string {
	switch t.op {
	case OpZExt:
		return fmt.Sprintf("((_ zero_extend %d) %s)", t.w-t.a.w, t.a.ref())
	case OpSExt:
		return fmt.Sprintf("((_ sign_extend %d) %s)", t.w-t.a.w, t.a.ref())
	case OpExtract:
		return fmt.Sprintf("((_ extract %d %d) %s)", int(t.k)+int(t.w)-1, t.k, t.a.ref())
	}
	var sb strings.Builder
	sb.WriteByte('(')
	sb.WriteString(opSMT[t.op])
	for _, x := range []*Term{t.a, t.b, t.c} {
		if x != nil {
			sb.WriteByte(' ')
			sb.WriteString(x.ref())
		}
	}
	sb.WriteByte(')')
	return sb.String()
}

// String renders a term fully (debugging, samples); DAG-unaware, size limited.
func (t *Term) String() string {
	return t.str(6)
}

func (t *Term) str(depth int) string {
	switch t.op {
	case OpConst:
		if t.w == 0 {
			return constSMT(0, t.k)
		}
		return fmt.Sprintf("%d", t.k)
	case OpVar:
		return t.name
	}
	if depth == 0 {
		return "…"
	}
	var sb strings.Builder
	sb.WriteByte('(')
	switch t.op {
	case OpZExt:
		sb.WriteString(fmt.Sprintf("zext%d", t.w))
	case OpSExt:
		sb.WriteString(fmt.Sprintf("sext%d", t.w))
	case OpExtract:
		sb.WriteString(fmt.Sprintf("extract[%d:%d]", int(t.k)+int(t.w)-1, t.k))
	default:
		sb.WriteString(opSMT[t.op])
	}
	for _, x := range []*Term{t.a, t.b, t.c} {
		if x != nil {
			sb.WriteByte(' ')
			sb.WriteString(x.str(depth - 1))
		}
	}
	sb.WriteByte(')')
	return sb.String()
}

// ---------- bit-slice reassembly: (zext(x[15:8]) << 8) | zext(x[7:0])  ==>  x ----------

type bslice struct {
	src *Term
	lo  uint8 // first bit of src
	w   uint8 // number of bits
	pos uint8 // position in the result
}

func (ts *TermStore) slicesOf(t *Term, out *[]bslice, shift uint8, width uint8) bool {
	if len(*out) > 8 {
		return false
	}
	switch t.op {
	case OpConst:
		return t.k == 0
	case OpZExt:
		return ts.slicesOf(t.a, out, shift, width)
	case OpShl:
		if !t.b.IsConst() || t.b.k >= 64 {
			return false
		}
		return ts.slicesOf(t.a, out, shift+uint8(t.b.k), width)
	case OpBOr:
		return ts.slicesOf(t.a, out, shift, width) && ts.slicesOf(t.b, out, shift, width)
	case OpExtract:
		if int(shift)+int(t.w) > int(width) {
			return false
		}
		*out = append(*out, bslice{t.a, uint8(t.k), t.w, shift})
		return true
	case OpVar:
		if int(shift)+int(t.w) > int(width) {
			return false
		}
		*out = append(*out, bslice{t, 0, t.w, shift})
		return true
	}
	return false
}

func (ts *TermStore) mergeSlices(a, b *Term, w uint8) *Term {
	var sl []bslice
	if !ts.slicesOf(a, &sl, 0, w) || !ts.slicesOf(b, &sl, 0, w) || len(sl) < 2 {
		return nil
	}
	// sort by position
	for i := 1; i < len(sl); i++ {
		for j := i; j > 0 && sl[j].pos < sl[j-1].pos; j-- {
			sl[j], sl[j-1] = sl[j-1], sl[j]
		}
	}
	src := sl[0].src
	for i := range sl {
		if sl[i].src != src {
			return nil
		}
		if i > 0 {
			p := sl[i-1]
			if sl[i].pos != p.pos+p.w || sl[i].lo != p.lo+p.w {
				return nil
			}
		}
	}
	lo := sl[0].lo
	tot := uint8(0)
	for _, x := range sl {
		tot += x.w
	}
	r := ts.ZExt(ts.Extract(src, lo, tot), w)
	if sl[0].pos > 0 {
		r = ts.Bin(OpShl, r, ts.Const(w, uint64(sl[0].pos)))
	}
	return r
}
