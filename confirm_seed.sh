#!/bin/sh
# usage: confirm_seed.sh <outdir-with-patch.diff+zz_demo_test.go> <seed-name> <property> <caught|missed> "<needs>" "<caught by>"
SRC=$1; NAME=$2; PROP=$3; STATUS=$4; NEEDS=$5; BY=$6
export GOFLAGS=-mod=mod GOPROXY=off
W=/tmp/confirm-$$
cd /repo && git worktree add -q --detach $W HEAD || exit 2
cd $W
applies=no; builds=no; suite=no; demo_fails_with=no; demo_passes_without=no
if git apply --3way "$SRC/patch.diff" 2>/dev/null || git apply "$SRC/patch.diff" 2>/dev/null; then applies=yes; fi
if [ $applies = yes ]; then
  git diff HEAD > /tmp/confirm-applied.diff
  go build ./... >/dev/null 2>&1 && builds=yes
  go test -vet=off -count=1 -timeout 25m ./... >/tmp/confirm-suite.log 2>&1 && suite=yes
  cp "$SRC/zz_demo_test.go" .
  go test -vet=off -count=1 -run 'Demo|demo|ZZ' . >/tmp/confirm-demo1.log 2>&1 || demo_fails_with=yes
  git checkout -q -- . 2>/dev/null; git reset -q --hard HEAD
  cp "$SRC/zz_demo_test.go" .
  go test -vet=off -count=1 -run 'Demo|demo|ZZ' . >/tmp/confirm-demo2.log 2>&1 && demo_passes_without=yes
fi
cd /repo && git worktree remove --force $W
D=/verif/seeded/$NAME
mkdir -p $D
if [ $applies = yes ]; then cp /tmp/confirm-applied.diff $D/patch.diff; else cp "$SRC/patch.diff" $D/patch.diff; fi
cp "$SRC/zz_demo_test.go" $D/ ; cp "$SRC/notes.md" $D/ 2>/dev/null
python3 - "$D" "$PROP" "$STATUS" "$NEEDS" "$BY" $applies $builds $suite $demo_fails_with $demo_passes_without <<'PY'
import json,sys,subprocess
d,prop,status,needs,by,applies,builds,suite,df,dp=sys.argv[1:11]
head=subprocess.run(['git','-C','/repo','rev-parse','--short','HEAD'],capture_output=True,text=True).stdout.strip()
json.dump({"property":prop,"needs_to_manifest":needs,"detection":status,"detected_by":by,
 "confirmed":{"base_commit":head,"patch_applies":applies,"go_build":builds,"existing_suite_passes":suite,"demo_fails_with_patch":df,"demo_passes_without_patch":dp},
 "ran":["git worktree add (scratch) HEAD; git apply patch.diff; go build ./...; go test -vet=off -count=1 ./...; go test -run Demo with and without the patch; /verif/seedtest.sh patch.diff "+prop]},
 open(d+'/meta.json','w'),indent=1)
print(d, applies,builds,suite,df,dp)
PY
