#!/bin/sh
# run_thorough.sh ID... : runs the thorough tier of each property in turn, one summary line each (for vp run)
for id in "$@"; do
  s=$(date +%s)
  out=$(./check $id thorough 2>&1); rc=$?
  e=$(( $(date +%s) - s ))
  echo "== $id rc=$rc ${e}s"
  echo "$out" | grep -E "^\[$id\]|VIOLATION|INCONCLUSIVE|KNOWN" | cut -c1-260
done
