#!/bin/sh
# native_replay.sh cases.json : run harness cases natively against /repo (overlay)
export GOFLAGS=-mod=mod GOPROXY=off
T=$(mktemp -d /tmp/nr.XXXX)
python3 - "$T" <<'PY'
import json,os,sys
t=sys.argv[1]
ov={"Replace":{}}
for f in os.listdir('/verif/harness'):
    if f.endswith('.go'): ov["Replace"]["/repo/"+f]="/verif/harness/"+f
json.dump(ov,open(t+"/ov.json","w"))
PY
cd /repo && VERIF_REPLAY=$(realpath "$1") go test -vet=off -count=1 -v -overlay $T/ov.json -run '^TestVerifReplay$' . 2>&1 | grep -v "^=== RUN\|^--- \|^PASS\|^ok" | cut -c1-400
rm -rf $T
