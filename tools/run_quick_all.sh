#!/bin/sh
# run_quick_all.sh : quick tier of every claimed property on the current tree, one line each
for id in $(python3 -c "import json;print(' '.join(c['property_id'] for c in json.load(open('/verif/MANIFEST.json'))['checks']))"); do
  s=$(date +%s)
  out=$(/verif/check $id quick 2>&1); rc=$?
  e=$(( $(date +%s) - s ))
  echo "$id rc=$rc ${e}s $(echo "$out" | grep -c '^KNOWN-FINDING') known $(echo "$out" | grep -E 'VIOLATION|INCONCLUSIVE' | head -2 | cut -c1-150)"
done
