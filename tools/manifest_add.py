#!/usr/bin/env python3
"""manifest_add.py ID 'level text' ['extra level_note']  -- upsert a check entry for property ID and drop it from not_applicable."""
import json, sys
pid, text = sys.argv[1], sys.argv[2]
note_extra = sys.argv[3] if len(sys.argv) > 3 else ""
m = json.load(open('/verif/MANIFEST.json'))
base_note = "trusted: the symgo engine (validated on every run by native replay of sampled witness paths and of every counterexample), z3 5.1, the RFC reference models in /verif/harness/zz_verif_ref_*.go and zz_verif_gen*.go"
entry = {
 "property_id": pid,
 "quick_cmd": f"/verif/check {pid} quick",
 "thorough_cmd": f"/verif/check {pid} thorough",
 "evidence_file": f"/verif/evidence/{pid}.json",
 "replay_cmd_template": "/verif/check replay {path}",
 "engine": "symgo",
 "technique": "solver-based bounded symbolic execution of the real code (go/ssa -> SMT-LIB2 bit-vectors, z3)",
 "level_claimed": {"category": "model_checking", "text": text, "design_ref": f"DESIGN.md §4 {pid}"},
 "level_note": base_note + (("; " + note_extra) if note_extra else ""),
}
m['checks'] = [c for c in m['checks'] if c['property_id'] != pid] + [entry]
m['checks'].sort(key=lambda c: c['property_id'])
m['not_applicable'] = [x for x in m.get('not_applicable', []) if x['property_id'] != pid]
for e in m.get('engines', []):
    if e['name'] == 'symgo' and pid not in e['serves_properties']:
        e['serves_properties'] = sorted(e['serves_properties'] + [pid])
json.dump(m, open('/verif/MANIFEST.json', 'w'), indent=1)
