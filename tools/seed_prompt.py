#!/usr/bin/env python3
"""seed_prompt.py ID TAG -> prints the sub-agent prompt for a seeded change (property text only)."""
import json, sys
pid, tag = sys.argv[1], sys.argv[2]
for l in open('/verif/properties.jsonl'):
    p = json.loads(l)
    if p['id'] == pid:
        break
wt = f"/tmp/seed-{pid}-{tag}"
out = f"/tmp/seedout-{pid}-{tag}"
hint = sys.argv[3] if len(sys.argv) > 3 else ""
print(f"""You are helping to evaluate a verification tool for the Go DNS library miekg/dns. Your job: write ONE realistic, subtle code change (a plausible refactoring slip, off-by-one, missed case, wrong operator, two cooperating edits...) to the library that BREAKS the semantic property stated below, while the library still compiles and its whole existing test suite still passes.

Work ONLY inside your own scratch git worktree of the library at {wt} (already created; do not touch /repo, do not read anything under /verif or /root/.vp). Environment for every go command: `export GOFLAGS=-mod=mod GOPROXY=off` (no network; do not set GOSUMDB or GOTOOLCHAIN).

The property (id {pid}): {p['title']}

Statement: {p['statement']}

Quantifier: {p['quantifier']['text']}

Code anchors: {json.dumps(p['anchors'].get('mechanism', p['anchors']))}

Requirements for the change:
1. It must need something specific to manifest - an unusual input, a boundary value, a particular multi-step sequence, a specific combination of options, or two sites that each look fine alone. It must NOT be something ordinary use or the existing tests would expose at once.
2. `go build ./...` succeeds and `go test -vet=off -count=1 ./...` (the complete existing suite, unedited) still passes in the worktree with your change applied. Do not edit or delete existing tests.
3. Only change non-test library source files (no new build tags, no changes to go.mod).
4. Write a demonstration test file `zz_demo_test.go` (package dns, one test function whose name starts with TestDemo) that FAILS with your change and PASSES on the unchanged library. The test must use only the public or package-internal API and no network.
{hint}
Deliverables, written to the directory {out} (create it):
- `patch.diff`: output of `git diff` in the worktree (library change only, NOT including zz_demo_test.go)
- `zz_demo_test.go`: the demonstration test
- `notes.md`: 5-10 lines: what the change is, which clause of the property it breaks, and exactly what is needed for it to manifest.

Before finishing, verify all of this yourself: run the full suite with the change; run the demo test with the change (must fail) and without it (must pass). NEVER use `git stash` (the stash is shared with other worktrees): to test without the change run `git diff > /tmp/my.diff; git checkout -- .` and afterwards `git apply /tmp/my.diff`. Leave the worktree with your change applied. Reply with a short summary (what you changed, the trigger, and the verification commands you ran with their results).""")
