#!/usr/bin/env python3
"""Regenerates Appendix C of DESIGN.md (seeded changes table) from seeded/*/meta.json."""
import json, glob, os, re
rows=[]; missed_first=0
for d in sorted(glob.glob('/verif/seeded/*')):
    m=json.load(open(d+'/meta.json'))
    by=m['detected_by']
    if 'missed' in by or 'after ' in by: missed_first+=1
    rows.append((os.path.basename(d), m['property'], m['detection'], m['needs_to_manifest'].replace('|','/'), by.replace('|','/')))
txt="## Appendix C - seeded changes and the checks that catch them\n\n"
txt+="Each change was written by a sub-agent that was given only the property text and a scratch worktree; it compiles, the unedited\nsuite passes with it, and its own demonstration test fails with it and passes without it (re-confirmed by `confirm_seed.sh`\nin a fresh worktree; `seeded/<id>/meta.json`). `seedtest.sh` applies the patch to /repo, runs the property's quick check and\nreverts. %d changes, %d caught now; %d of them were missed by the first version of the check and led to the strengthening named in\nthe last column.\n\n" % (len(rows), sum(1 for r in rows if r[2]=='caught'), missed_first)
txt+="| seed | needs to manifest | caught by |\n|---|---|---|\n"
for r in rows:
    txt+="| %s | %s | %s |\n" % (r[0], r[3], r[4])
p='/verif/DESIGN.md'
s=open(p).read()
a=s.find('## Appendix C - seeded changes')
if a>=0:
    s=s[:a].rstrip('\n')+'\n\n'
s=s.rstrip('\n')+'\n\n'+txt
s=re.sub(r'\*\*Seeded changes\*\* \(section "Appendix C"\).*?\n\n', '**Seeded changes** (Appendix C) were produced by sub-agents that saw only the property text; %d of %d were missed by the first\nversion of the check and led to the strengthenings listed there; %d are caught now by the listed assertion.\n\n' % (missed_first, len(rows), sum(1 for r in rows if r[2]=='caught')), s, flags=re.S)
open(p,'w').write(s)
print(len(rows), missed_first)
