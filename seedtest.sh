#!/bin/sh
# usage: seedtest.sh <patch.diff> <property> [tier]   -- applies a seeded change to /repo, runs the check, reverts
P=$1; ID=$2; T=${3:-quick}
cd /repo || exit 2
trap 'cd /repo && git reset -q --hard HEAD && git clean -fdq' EXIT INT TERM
git diff --quiet || { echo "/repo not clean"; exit 2; }
git apply "$P" 2>/dev/null || git apply --3way "$P" 2>/dev/null || { echo "patch does not apply"; exit 3; }
cp /verif/evidence/$ID.json /tmp/seedtest-evidence.json 2>/dev/null
/verif/check $ID $T > /tmp/seedtest.out 2>&1; rc=$?
cp /tmp/seedtest-evidence.json /verif/evidence/$ID.json 2>/dev/null; rm -f /verif/replays/*.json
git reset -q --hard HEAD; git clean -fdq
grep -E "VIOLATION|KNOWN-FINDING|INCONCLUSIVE|violated:" /tmp/seedtest.out | cut -c1-300 | head -12
echo "exit=$rc"
