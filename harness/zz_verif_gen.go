package dns

// Record generator / checker driven by the RFC field layouts (DESIGN.md Appendix B).
//
// vVisit(g, rr) walks the fields of a record in RFC wire order. In build mode it draws
// symbolic field values, stores them into the struct (names/strings spelled by the
// *reference* escaper) and appends the RFC wire encoding to g.wire. In check mode it
// compares the struct fields of a (decoded) record with the recorded values, decoding
// presentation text with the reference readers. Nothing here calls the library's codecs.

import "net"

type vField struct {
	u      uint64
	b      []byte
	labels [][]byte
}

type vGen struct {
	pfx    string
	check  bool
	wire   []byte
	ok     bool
	exp    []vField
	pos    int
	n      int
	esc    bool // some field needed an escape sequence in its presentation form
	alpha  bool // textual octets range over 0x41..0x7e without backslash instead of a-z
	anyOct bool // names/strings may contain arbitrary octets (more paths) instead of letters only
	maxStr, maxBlob, maxLabels, maxOct, maxList int
	nameOffs []int  // offsets of domain names inside g.wire
	nameComp []bool // whether the RFC allows compressing that name
	bad    string
	fixedLabels [][]byte // if set, every name (owner and RDATA) is this name
	owner       [][]byte // if set, the owner name (not drawn)
	plainStr    bool     // the next character-string holds letters only even with gen.anystr (CAA tags: RFC 8659 4.1)
	minStr      int      // shortest character-string drawn (set around fields that must not be empty)
	minBlob     int      // gen.minblob: shortest opaque (hex/base64) field drawn
	ints        int      // gen.ints: 1 = integer fields are fixed values (see constInt)
	intSel      int
	vals    []uint64 // every symbolic draw, in order
	like    *vGen    // reuse the draws of this generator ...
	mut     int      // ... except draw number mut (fresh)
	choices []int // shape decisions taken (recorded)
	replay  []int // if non-nil: shape decisions to repeat instead of forking
}

// draws: every symbolic value goes through these so that a second generator can reuse the values of
// a first one except at one mutated draw (records differing in exactly one field octet/integer).
func (g *vGen) draw(fresh func() uint64) uint64 {
	i := len(g.vals)
	var v uint64
	if g.like != nil && i < len(g.like.vals) && i != g.mut {
		v = g.like.vals[i]
	} else {
		v = fresh()
	}
	g.vals = append(g.vals, v)
	return v
}
func (g *vGen) dU8() uint8 {
	n := g.nm()
	return uint8(g.draw(func() uint64 {
		if g.ints != 0 {
			return g.constInt(8)
		}
		return uint64(vU8(n))
	}))
}
func (g *vGen) dU16() uint16 {
	n := g.nm()
	return uint16(g.draw(func() uint64 {
		if g.ints != 0 {
			return g.constInt(16)
		}
		return uint64(vU16(n))
	}))
}
func (g *vGen) dU32() uint32 {
	n := g.nm()
	return uint32(g.draw(func() uint64 {
		if g.ints != 0 {
			return g.constInt(32)
		}
		return uint64(vU32(n))
	}))
}
func (g *vGen) dU64() uint64 {
	n := g.nm()
	return g.draw(func() uint64 {
		if g.ints != 0 {
			return g.constInt(64)
		}
		return vU64(n)
	})
}

// constInt (gen.ints=1): integer fields take fixed values instead of symbolic ones - all zero, all ones, or a
// pattern that differs per field - chosen once per record (printing and parsing decimal numbers of symbolic
// integers forks per digit; the decimal round trip is checked by its own harness).
func (g *vGen) constInt(w uint) uint64 {
	if g.intSel == 0 {
		g.intSel = 1 + vChoice(g.pfx+"ints", 3)
	}
	switch g.intSel {
	case 1:
		return 0
	case 2:
		return (uint64(1) << (w - 1) << 1) - 1
	}
	v := uint64(0x9E3779B97F4A7C15) * uint64(g.n+3)
	return (v >> 13) & ((uint64(1) << (w - 1) << 1) - 1)
}
func (g *vGen) dBytes(k int) []byte {
	n := g.nm()
	b := make([]byte, k)
	for i := range b {
		nn := n + "." + vItoa(i)
		b[i] = uint8(g.draw(func() uint64 { return uint64(vU8(nn)) }))
	}
	return b
}

// choice is vChoice, except that a generator can be told to repeat another generator's shape.
func (g *vGen) choice(name string, k int) int {
	if g.replay != nil {
		c := g.replay[0]
		g.replay = g.replay[1:]
		g.choices = append(g.choices, c)
		return c
	}
	c := vChoice(name, k)
	g.choices = append(g.choices, c)
	return c
}

func vNewGen(pfx string) *vGen {
	return &vGen{pfx: pfx, ok: true,
		anyOct:    vParam("gen.any", 0) == 1,
		alpha:     vParam("gen.alpha", 0) == 1,
		maxStr:    vParam("gen.str", 2),
		maxBlob:   vParam("gen.blob", 2),
		maxLabels: vParam("gen.labels", 1),
		maxOct:    vParam("gen.octets", 1),
		maxList:   vParam("gen.list", 1),
		ints:      vParam("gen.ints", 0),
		minBlob:   vParam("gen.minblob", 0),
	}
}

func (g *vGen) nm() string {
	g.n++
	return g.pfx + "f" + vItoa(g.n)
}

func vItoa(n int) string {
	if n == 0 {
		return "0"
	}
	var b []byte
	for n > 0 {
		b = append([]byte{byte('0' + n%10)}, b...)
		n /= 10
	}
	return string(b)
}

func (g *vGen) rec(f vField) { g.exp = append(g.exp, f) }
func (g *vGen) next() vField {
	if g.pos >= len(g.exp) {
		g.ok = false
		g.bad = "more fields than recorded"
		return vField{}
	}
	f := g.exp[g.pos]
	g.pos++
	return f
}
func (g *vGen) fail(what string) {
	if g.ok {
		g.bad = what
	}
	g.ok = false
}

// ---------- reference text codecs ----------

func refIsPlain(b byte) bool {
	return (b >= 'a' && b <= 'z') || (b >= 'A' && b <= 'Z') || (b >= '0' && b <= '9') || b == '-' || b == '_'
}

func refDDD(b byte) []byte { return []byte{'\\', '0' + b/100, '0' + (b/10)%10, '0' + b%10} }

// refEscapeName: RFC 1035 §5.1 text for labels; every non [A-Za-z0-9_-] octet as \DDD.
func refEscapeName(labels [][]byte) (string, bool) {
	if len(labels) == 0 {
		return ".", false
	}
	esc := false
	var t []byte
	for _, l := range labels {
		for _, b := range l {
			if refIsPlain(b) {
				t = append(t, b)
			} else {
				t = append(t, refDDD(b)...)
				esc = true
			}
		}
		t = append(t, '.')
	}
	return string(t), esc
}

// refEscapeTxt: character-string content; quote, backslash and non-printables as \DDD.
func refEscapeTxt(bs []byte) (string, bool) {
	esc := false
	var t []byte
	for _, b := range bs {
		if b >= ' ' && b <= '~' && b != '"' && b != '\\' {
			t = append(t, b)
		} else {
			t = append(t, refDDD(b)...)
			esc = true
		}
	}
	return string(t), esc
}

// refUnescapeTxt reads character-string text: \DDD and \c.
func refUnescapeTxt(s string) ([]byte, bool) {
	var out []byte
	for i := 0; i < len(s); {
		if s[i] != '\\' {
			out = append(out, s[i])
			i++
			continue
		}
		if i+1 >= len(s) {
			return nil, false
		}
		if i+3 < len(s) && refIsDigit(s[i+1]) && refIsDigit(s[i+2]) && refIsDigit(s[i+3]) {
			out = append(out, byte(int(s[i+1]-'0')*100+int(s[i+2]-'0')*10+int(s[i+3]-'0')))
			i += 4
			continue
		}
		out = append(out, s[i+1])
		i += 2
	}
	return out, true
}

const refHexDigits = "0123456789abcdef"

func refHex(bs []byte) string {
	t := make([]byte, 0, 2*len(bs))
	for _, b := range bs {
		t = append(t, refHexDigits[b>>4], refHexDigits[b&15])
	}
	return string(t)
}

func refHexVal(c byte) (byte, bool) {
	switch {
	case c >= '0' && c <= '9':
		return c - '0', true
	case c >= 'a' && c <= 'f':
		return c - 'a' + 10, true
	case c >= 'A' && c <= 'F':
		return c - 'A' + 10, true
	}
	return 0, false
}

func refUnhex(s string) ([]byte, bool) {
	if len(s)%2 != 0 {
		return nil, false
	}
	out := make([]byte, len(s)/2)
	ok := true
	for i := range out {
		h, ok1 := refHexVal(s[2*i])
		l, ok2 := refHexVal(s[2*i+1])
		if !ok1 || !ok2 {
			ok = false
		}
		out[i] = h<<4 | l
	}
	return out, ok
}

const refB64Digits = "ABCDEFGHIJKLMNOPQRSTUVWXYZabcdefghijklmnopqrstuvwxyz0123456789+/"

// refBase64: RFC 4648 §4 with padding.
func refBase64(bs []byte) string {
	var t []byte
	for i := 0; i < len(bs); i += 3 {
		var v uint32
		n := len(bs) - i
		if n > 3 {
			n = 3
		}
		for j := 0; j < 3; j++ {
			v <<= 8
			if j < n {
				v |= uint32(bs[i+j])
			}
		}
		t = append(t, refB64Digits[(v>>18)&63], refB64Digits[(v>>12)&63])
		if n > 1 {
			t = append(t, refB64Digits[(v>>6)&63])
		} else {
			t = append(t, '=')
		}
		if n > 2 {
			t = append(t, refB64Digits[v&63])
		} else {
			t = append(t, '=')
		}
	}
	out := string(t)
	vNoteBase64(out, bs)
	return out
}

const refB32Digits = "0123456789ABCDEFGHIJKLMNOPQRSTUV"

// refBase32Hex: RFC 4648 §7 without padding (RFC 5155 presentation of the next hashed owner).
func refBase32Hex(bs []byte) string {
	var t []byte
	var acc uint32
	bits := 0
	for _, b := range bs {
		acc = acc<<8 | uint32(b)
		bits += 8
		for bits >= 5 {
			t = append(t, refB32Digits[(acc>>uint(bits-5))&31])
			bits -= 5
		}
	}
	if bits > 0 {
		t = append(t, refB32Digits[(acc<<uint(5-bits))&31])
	}
	return string(t)
}

// ---------- symbolic draws ----------

func (g *vGen) octets(k int, textual bool) []byte {
	b := g.dBytes(k)
	if textual && !g.anyOct {
		for i := range b {
			if g.alpha {
				// printable octets the library writes raw in names: A-Z [ ] ^ _ ` a-z { | } ~ (no backslash)
				vAssume(b[i] >= 'A' && b[i] <= '~' && b[i] != '\\')
			} else {
				vAssume(b[i] >= 'a' && b[i] <= 'z')
			}
		}
	}
	return b
}

// strOctets: contents of character-strings; gen.anystr=1 makes them arbitrary octets while names keep letters.
func (g *vGen) strOctets(k int) []byte {
	if vParam("gen.anystr", 0) == 1 && !g.plainStr {
		return g.octets(k, false)
	}
	return g.octets(k, true)
}

func (g *vGen) drawLabels() [][]byte {
	if g.fixedLabels != nil {
		return g.fixedLabels
	}
	nl := g.choice(g.nm()+"nl", g.maxLabels+1)
	labels := make([][]byte, nl)
	for i := range labels {
		ln := 1 + g.choice(g.nm()+"ll", g.maxOct)
		labels[i] = g.octets(ln, true)
	}
	return labels
}

// ---------- field visitors ----------

func (g *vGen) U8(p *uint8) {
	if !g.check {
		*p = g.dU8()
		g.wire = append(g.wire, *p)
		g.rec(vField{u: uint64(*p)})
	} else if f := g.next(); uint64(*p) != f.u {
		g.fail("u8")
	}
}

func (g *vGen) U16(p *uint16) {
	if !g.check {
		*p = g.dU16()
		g.wire = append(g.wire, byte(*p>>8), byte(*p))
		g.rec(vField{u: uint64(*p)})
	} else if f := g.next(); uint64(*p) != f.u {
		g.fail("u16")
	}
}

func (g *vGen) U32(p *uint32) {
	if !g.check {
		*p = g.dU32()
		g.wire = append(g.wire, byte(*p>>24), byte(*p>>16), byte(*p>>8), byte(*p))
		g.rec(vField{u: uint64(*p)})
	} else if f := g.next(); uint64(*p) != f.u {
		g.fail("u32")
	}
}

func (g *vGen) U48(p *uint64) {
	if !g.check {
		*p = g.dU64() & 0xFFFFFFFFFFFF
		g.wire = append(g.wire, byte(*p>>40), byte(*p>>32), byte(*p>>24), byte(*p>>16), byte(*p>>8), byte(*p))
		g.rec(vField{u: *p})
	} else if f := g.next(); *p != f.u {
		g.fail("u48")
	}
}

func (g *vGen) U64(p *uint64) {
	if !g.check {
		*p = g.dU64()
		for s := 56; s >= 0; s -= 8 {
			g.wire = append(g.wire, byte(*p>>uint(s)))
		}
		g.rec(vField{u: *p})
	} else if f := g.next(); *p != f.u {
		g.fail("u64")
	}
}

// fixed values written without drawing (lengths derived from data)
func (g *vGen) LenU8(p *uint8, v int) {
	if !g.check {
		*p = uint8(v)
		g.wire = append(g.wire, uint8(v))
		g.rec(vField{u: uint64(v)})
	} else if f := g.next(); uint64(*p) != f.u {
		g.fail("len8")
	}
}

func (g *vGen) LenU16(p *uint16, v int) {
	if !g.check {
		*p = uint16(v)
		g.wire = append(g.wire, byte(v>>8), byte(v))
		g.rec(vField{u: uint64(v)})
	} else if f := g.next(); uint64(*p) != f.u {
		g.fail("len16")
	}
}

func (g *vGen) Name(p *string, compressible bool) {
	if !g.check {
		labels := g.drawLabels()
		s, esc := refEscapeName(labels)
		if esc {
			g.esc = true
		}
		*p = s
		g.nameOffs = append(g.nameOffs, len(g.wire))
		g.nameComp = append(g.nameComp, compressible)
		g.wire = append(g.wire, refWire(labels)...)
		g.rec(vField{labels: labels})
		return
	}
	f := g.next()
	got, fq, ok := refParseName(*p)
	if !ok || !fq || !refLabelsEqual(got, f.labels) {
		g.fail("name")
	}
}

// Str: <character-string>
func (g *vGen) Str(p *string) {
	if !g.check {
		k := g.minStr + g.choice(g.nm()+"sl", g.maxStr+1-g.minStr)
		b := g.strOctets(k)
		s, esc := refEscapeTxt(b)
		if esc {
			g.esc = true
		}
		*p = s
		g.wire = append(g.wire, byte(k))
		g.wire = append(g.wire, b...)
		g.rec(vField{b: b})
		return
	}
	f := g.next()
	got, ok := refUnescapeTxt(*p)
	if !ok || !refBytesEqual(got, f.b) {
		g.fail("str")
	}
}

// Strs: one or more <character-string>s to the end of RDATA
func (g *vGen) Strs(p *[]string) {
	if !g.check {
		n := 1 + g.choice(g.nm()+"ns", g.maxList+1)
		ss := make([]string, n)
		for i := range ss {
			g.Str(&ss[i])
		}
		*p = ss
		g.rec(vField{u: uint64(n)})
		return
	}
	// recorded: n strings then the count
	ss := *p
	save := g.pos
	// count how many Str fields precede the count record: scan forward
	i := 0
	for ; i < len(ss); i++ {
		g.Str(&ss[i])
	}
	f := g.next()
	if int(f.u) != len(ss) || g.pos != save+len(ss)+1 {
		g.fail("strs-count")
	}
}

// OctetRest: remaining RDATA as text with \DDD escapes (URI target, CAA value)
func (g *vGen) OctetRest(p *string) {
	if !g.check {
		k := g.choice(g.nm()+"ol", g.maxStr+1)
		b := g.strOctets(k)
		s, esc := refEscapeTxt(b)
		if esc {
			g.esc = true
		}
		*p = s
		g.wire = append(g.wire, b...)
		g.rec(vField{b: b})
		return
	}
	f := g.next()
	got, ok := refUnescapeTxt(*p)
	if !ok || !refBytesEqual(got, f.b) {
		g.fail("octet")
	}
}

// AnyRest: remaining RDATA held raw (NULL)
func (g *vGen) AnyRest(p *string) {
	if !g.check {
		k := g.choice(g.nm()+"al", g.maxBlob+1)
		b := g.octets(k, false)
		*p = string(b)
		g.wire = append(g.wire, b...)
		g.rec(vField{b: b})
		return
	}
	f := g.next()
	if !refBytesEqual([]byte(*p), f.b) {
		g.fail("any")
	}
}

func (g *vGen) blob(k int) []byte {
	if k < 0 {
		k = g.minBlob + g.choice(g.nm()+"bl", g.maxBlob+1-g.minBlob)
	}
	return g.octets(k, false)
}

// blob1: k octets of which one (at a position enumerated by forking) is symbolic and the others are
// fixed constants. Used for base64/base32 fields, where each presentation digit mixes adjacent
// octets: with one symbolic octet every digit depends on a single variable and is decided exactly.
func (g *vGen) blob1(k int) []byte {
	if k < 0 {
		k = g.minBlob + g.choice(g.nm()+"bl", g.maxBlob+1-g.minBlob)
	}
	b := make([]byte, k)
	for i := range b {
		b[i] = byte(0xA5 + 0x3B*i)
	}
	if k > 0 {
		b[g.choice(g.nm()+"bp", k)] = g.dU8()
	}
	return b
}

// Hex: k octets (k<0: drawn, to the end of RDATA) presented as hex
func (g *vGen) Hex(p *string, b []byte) {
	if !g.check {
		*p = refHex(b)
		g.wire = append(g.wire, b...)
		g.rec(vField{b: b})
		return
	}
	f := g.next()
	s := *p
	if s == "-" {
		s = ""
	}
	got, ok := refUnhex(s)
	if !ok || !refBytesEqual(got, f.b) {
		g.fail("hex")
	}
}

func (g *vGen) B64(p *string, b []byte) {
	if !g.check {
		*p = refBase64(b)
		g.wire = append(g.wire, b...)
		g.rec(vField{b: b})
		return
	}
	f := g.next()
	if *p != refBase64(f.b) {
		g.fail("base64")
	}
}

func (g *vGen) B32(p *string, b []byte) {
	if !g.check {
		*p = refBase32Hex(b)
		g.wire = append(g.wire, b...)
		g.rec(vField{b: b})
		return
	}
	f := g.next()
	if len(*p) != len(refBase32Hex(f.b)) {
		g.fail("base32-len")
		return
	}
	want := refBase32Hex(f.b)
	same := true
	for i := 0; i < len(want); i++ {
		c := (*p)[i]
		if c >= 'a' && c <= 'z' {
			c -= 32
		}
		if c != want[i] {
			same = false
		}
	}
	if !same {
		g.fail("base32")
	}
}

func (g *vGen) IP(p *net.IP, n int) {
	if !g.check {
		var b []byte
		if g.ints != 0 {
			// fixed addresses (printing symbolic addresses forks per digit): all zero, all ones, or 2001:db8::<n>:1
			if g.intSel == 0 {
				g.intSel = 1 + vChoice(g.pfx+"ints", 3)
			}
			b = make([]byte, n)
			switch g.intSel {
			case 2:
				for i := range b {
					b[i] = 0xFF
				}
			case 3:
				pat := []byte{0x20, 0x01, 0x0d, 0xb8, 0, 0, 0, 0, 0, 0, 0, 0, 0, byte(g.n + 1), 0, 1}
				if n == 4 {
					pat = []byte{192, 0, 2, byte(g.n + 1)}
				}
				copy(b, pat)
			}
			g.n++
		} else {
			b = g.octets(n, false)
		}
		*p = net.IP(append([]byte(nil), b...))
		g.wire = append(g.wire, b...)
		g.rec(vField{b: b})
		return
	}
	f := g.next()
	ip := []byte(*p)
	if n == 4 && len(ip) == 16 {
		// an IPv4 address may be held in its 16-octet form
		ip = ip[12:]
	}
	if !refBytesEqual(ip, f.b) {
		g.fail("ip")
	}
}

// bitmap menu: (window, octet) pairs in increasing order; the bit inside the octet is symbolic
var vBitmapMenu = [][2]int{{0, 0}, {0, 5}, {1, 0}, {255, 31}}

func (g *vGen) Bitmap(p *[]uint16) {
	if !g.check {
		sel := g.choice(g.nm()+"bm", 7) // subsets of the menu
		var picks []int
		switch sel {
		case 0:
		case 1:
			picks = []int{0}
		case 2:
			picks = []int{1}
		case 3:
			picks = []int{0, 1}
		case 4:
			picks = []int{1, 2}
		case 5:
			picks = []int{0, 3}
		default:
			picks = []int{3}
		}
		var ts []uint16
		for _, pi := range picks {
			bit := g.dU8() & 7
			m := vBitmapMenu[pi]
			tt := uint16(m[0]*256+m[1]*8) + uint16(bit)
			if g.ints != 0 {
				// types 0 and 65535 print as "None" / "Reserved", which the parser does not read back (known finding
				// C05-none-reserved-mnemonics, checked by H_C05_mnemonics); they never appear in a well-formed bitmap
				if tt == 0 {
					tt = 1
				}
				if tt == 65535 {
					tt = 65534
				}
			}
			ts = append(ts, tt)
		}
		*p = ts
		// RFC 4034 §4.1.2 encoding
		i := 0
		for i < len(picks) {
			w := vBitmapMenu[picks[i]][0]
			j := i
			maxOct := 0
			for j < len(picks) && vBitmapMenu[picks[j]][0] == w {
				if vBitmapMenu[picks[j]][1] > maxOct {
					maxOct = vBitmapMenu[picks[j]][1]
				}
				j++
			}
			blk := make([]byte, maxOct+1)
			for k := i; k < j; k++ {
				blk[vBitmapMenu[picks[k]][1]] |= 0x80 >> (ts[k] & 7)
			}
			g.wire = append(g.wire, byte(w), byte(maxOct+1))
			g.wire = append(g.wire, blk...)
			i = j
		}
		f := vField{}
		for _, t := range ts {
			f.b = append(f.b, byte(t>>8), byte(t))
		}
		g.rec(f)
		return
	}
	f := g.next()
	ts := *p
	if len(ts)*2 != len(f.b) {
		g.fail("bitmap-count")
		return
	}
	for i, t := range ts {
		if byte(t>>8) != f.b[2*i] || byte(t) != f.b[2*i+1] {
			g.fail("bitmap")
		}
	}
}

// ---------- per-type layouts ----------

func (g *vGen) rrsig(x *RRSIG) {
	g.U16(&x.TypeCovered)
	g.U8(&x.Algorithm)
	g.U8(&x.Labels)
	g.U32(&x.OrigTtl)
	g.U32(&x.Expiration)
	g.U32(&x.Inception)
	g.U16(&x.KeyTag)
	g.Name(&x.SignerName, false)
	g.B64(&x.Signature, g.blob1OrRec())
}

// blobOrRec draws a blob in build mode; in check mode the bytes come from the record.
func (g *vGen) blobOrRec() []byte {
	if g.check {
		return nil
	}
	return g.blob(-1)
}

func (g *vGen) blob1OrRec() []byte {
	if g.check {
		return nil
	}
	return g.blob1(-1)
}

func (g *vGen) blobN(k int) []byte {
	if g.check {
		return nil
	}
	return g.blob(k)
}

func (g *vGen) dnskey(x *DNSKEY) {
	g.U16(&x.Flags)
	g.U8(&x.Protocol)
	g.U8(&x.Algorithm)
	g.B64(&x.PublicKey, g.blob1OrRec())
}

func (g *vGen) ds(x *DS) {
	g.U16(&x.KeyTag)
	g.U8(&x.Algorithm)
	g.U8(&x.DigestType)
	g.Hex(&x.Digest, g.blobOrRec())
}

func (g *vGen) nsec(x *NSEC) {
	g.Name(&x.NextDomain, false)
	g.Bitmap(&x.TypeBitMap)
}

func (g *vGen) gateway(gt uint8, addr *net.IP, host *string) {
	switch gt {
	case 1:
		g.IP(addr, 4)
	case 2:
		g.IP(addr, 16)
	case 3:
		g.Name(host, false)
	}
}

// vVisit returns false when the type has no layout entry here.
func vVisit(g *vGen, rr RR) bool {
	switch x := rr.(type) {
	case *A:
		g.IP(&x.A, 4)
	case *AAAA:
		g.IP(&x.AAAA, 16)
	case *NS:
		g.Name(&x.Ns, true)
	case *MD:
		g.Name(&x.Md, true)
	case *MF:
		g.Name(&x.Mf, true)
	case *CNAME:
		g.Name(&x.Target, true)
	case *MB:
		g.Name(&x.Mb, true)
	case *MG:
		g.Name(&x.Mg, true)
	case *MR:
		g.Name(&x.Mr, true)
	case *PTR:
		g.Name(&x.Ptr, true)
	case *SOA:
		g.Name(&x.Ns, true)
		g.Name(&x.Mbox, true)
		g.U32(&x.Serial)
		g.U32(&x.Refresh)
		g.U32(&x.Retry)
		g.U32(&x.Expire)
		g.U32(&x.Minttl)
	case *MINFO:
		g.Name(&x.Rmail, true)
		g.Name(&x.Email, true)
	case *MX:
		g.U16(&x.Preference)
		g.Name(&x.Mx, true)
	case *HINFO:
		g.Str(&x.Cpu)
		g.Str(&x.Os)
	case *TXT:
		g.Strs(&x.Txt)
	case *SPF:
		g.Strs(&x.Txt)
	case *AVC:
		g.Strs(&x.Txt)
	case *NINFO:
		g.Strs(&x.ZSData)
	case *RESINFO:
		g.Strs(&x.Txt)
	case *UINFO:
		g.Str(&x.Uinfo)
	case *X25:
		g.Str(&x.PSDNAddress)
	case *ISDN:
		g.Str(&x.Address)
		g.Str(&x.SubAddress)
	case *GPOS:
		g.Str(&x.Longitude)
		g.Str(&x.Latitude)
		g.Str(&x.Altitude)
	case *NULL:
		g.AnyRest(&x.Data)
	case *RP:
		g.Name(&x.Mbox, false)
		g.Name(&x.Txt, false)
	case *TALINK:
		g.Name(&x.PreviousName, false)
		g.Name(&x.NextName, false)
	case *DNAME:
		g.Name(&x.Target, false)
	case *NSAPPTR:
		g.Name(&x.Ptr, false)
	case *AFSDB:
		g.U16(&x.Subtype)
		g.Name(&x.Hostname, false)
	case *RT:
		g.U16(&x.Preference)
		g.Name(&x.Host, false)
	case *KX:
		g.U16(&x.Preference)
		g.Name(&x.Exchanger, false)
	case *LP:
		g.U16(&x.Preference)
		g.Name(&x.Fqdn, false)
	case *PX:
		g.U16(&x.Preference)
		g.Name(&x.Map822, false)
		g.Name(&x.Mapx400, false)
	case *SRV:
		g.U16(&x.Priority)
		g.U16(&x.Weight)
		g.U16(&x.Port)
		g.Name(&x.Target, false)
	case *NAPTR:
		g.U16(&x.Order)
		g.U16(&x.Preference)
		g.Str(&x.Flags)
		g.Str(&x.Service)
		g.Str(&x.Regexp)
		g.Name(&x.Replacement, false)
	case *CERT:
		g.U16(&x.Type)
		g.U16(&x.KeyTag)
		g.U8(&x.Algorithm)
		g.B64(&x.Certificate, g.blob1OrRec())
	case *DNSKEY:
		g.dnskey(x)
	case *KEY:
		g.dnskey(&x.DNSKEY)
	case *CDNSKEY:
		g.dnskey(&x.DNSKEY)
	case *RKEY:
		g.U16(&x.Flags)
		g.U8(&x.Protocol)
		g.U8(&x.Algorithm)
		g.B64(&x.PublicKey, g.blob1OrRec())
	case *OPENPGPKEY:
		g.B64(&x.PublicKey, g.blob1OrRec())
	case *DHCID:
		g.B64(&x.Digest, g.blob1OrRec())
	case *DS:
		g.ds(x)
	case *CDS:
		g.ds(&x.DS)
	case *DLV:
		g.ds(&x.DS)
	case *TA:
		g.U16(&x.KeyTag)
		g.U8(&x.Algorithm)
		g.U8(&x.DigestType)
		g.Hex(&x.Digest, g.blobOrRec())
	case *SSHFP:
		g.U8(&x.Algorithm)
		g.U8(&x.Type)
		g.Hex(&x.FingerPrint, g.blobOrRec())
	case *TLSA:
		g.U8(&x.Usage)
		g.U8(&x.Selector)
		g.U8(&x.MatchingType)
		g.Hex(&x.Certificate, g.blobOrRec())
	case *SMIMEA:
		g.U8(&x.Usage)
		g.U8(&x.Selector)
		g.U8(&x.MatchingType)
		g.Hex(&x.Certificate, g.blobOrRec())
	case *ZONEMD:
		g.U32(&x.Serial)
		g.U8(&x.Scheme)
		g.U8(&x.Hash)
		g.Hex(&x.Digest, g.blobOrRec())
	case *EID:
		g.Hex(&x.Endpoint, g.blobOrRec())
	case *NIMLOC:
		g.Hex(&x.Locator, g.blobOrRec())
	case *RFC3597:
		g.Hex(&x.Rdata, g.blobOrRec())
	case *RRSIG:
		g.rrsig(x)
	case *SIG:
		g.rrsig(&x.RRSIG)
	case *NSEC:
		g.nsec(x)
	case *NXT:
		g.nsec(&x.NSEC)
	case *CSYNC:
		g.U32(&x.Serial)
		g.U16(&x.Flags)
		g.Bitmap(&x.TypeBitMap)
	case *NSEC3:
		g.U8(&x.Hash)
		g.U8(&x.Flags)
		g.U16(&x.Iterations)
		salt := g.blobOrRec()
		g.LenU8(&x.SaltLength, len(salt))
		g.Hex(&x.Salt, salt)
		var h []byte
		if !g.check {
			if vParam("gen.nsec3full", 0) == 1 {
				h = g.blob1(20) // the only defined hash (SHA-1) is 20 octets; the parser fixes the length to 20
			} else {
				h = g.blob1(1 + g.choice(g.nm()+"hl", g.maxBlob+1))
			}
		}
		g.LenU8(&x.HashLength, len(h))
		g.B32(&x.NextDomain, h)
		g.Bitmap(&x.TypeBitMap)
	case *NSEC3PARAM:
		g.U8(&x.Hash)
		g.U8(&x.Flags)
		g.U16(&x.Iterations)
		salt := g.blobOrRec()
		g.LenU8(&x.SaltLength, len(salt))
		g.Hex(&x.Salt, salt)
	case *LOC:
		if g.ints != 0 && !g.check {
			// RFC 1876 well-formed values only (version 0, size/precision digits 0..9, coordinates within +-90/180 degrees)
			if g.intSel == 0 {
				g.intSel = 1 + vChoice(g.pfx+"ints", 3)
			}
			v := [][7]uint32{{0, 0x00, 0x00, 0x00, 1 << 31, 1 << 31, 0},
				{0, 0x99, 0x99, 0x99, 1<<31 + 90*3600000, 1<<31 - 180*3600000, 0xFFFFFFFF},
				{0, 0x12, 0x16, 0x13, 1<<31 - 1234567, 1<<31 + 7654321, 10000000 + 4200}}[g.intSel-1]
			x.Version, x.Size, x.HorizPre, x.VertPre = uint8(v[0]), uint8(v[1]), uint8(v[2]), uint8(v[3])
			x.Latitude, x.Longitude, x.Altitude = v[4], v[5], v[6]
			g.wire = append(g.wire, x.Version, x.Size, x.HorizPre, x.VertPre)
			for _, u := range v[4:] {
				g.wire = append(g.wire, byte(u>>24), byte(u>>16), byte(u>>8), byte(u))
			}
			for _, u := range v {
				g.rec(vField{u: uint64(u)})
			}
			break
		}
		g.U8(&x.Version)
		g.U8(&x.Size)
		g.U8(&x.HorizPre)
		g.U8(&x.VertPre)
		g.U32(&x.Latitude)
		g.U32(&x.Longitude)
		g.U32(&x.Altitude)
	case *NID:
		g.U16(&x.Preference)
		g.U64(&x.NodeID)
	case *L64:
		g.U16(&x.Preference)
		g.U64(&x.Locator64)
	case *L32:
		g.U16(&x.Preference)
		g.IP(&x.Locator32, 4)
	case *EUI48:
		g.U48(&x.Address)
	case *EUI64:
		g.U64(&x.Address)
	case *UID:
		g.U32(&x.Uid)
	case *GID:
		g.U32(&x.Gid)
	case *URI:
		g.U16(&x.Priority)
		g.U16(&x.Weight)
		g.OctetRest(&x.Target)
	case *CAA:
		g.U8(&x.Flag)
		if g.minBlob > 0 {
			g.minStr = 1 // RFC 8659 4.1: the tag length MUST be at least 1
		}
		g.plainStr = true
		g.Str(&x.Tag)
		g.minStr, g.plainStr = 0, false
		g.OctetRest(&x.Value)
	case *IPSECKEY:
		g.U8(&x.Precedence)
		if !g.check {
			x.GatewayType = uint8(g.choice(g.nm()+"gt", 4))
			g.wire = append(g.wire, x.GatewayType)
			g.rec(vField{u: uint64(x.GatewayType)})
		} else if f := g.next(); uint64(x.GatewayType) != f.u {
			g.fail("gwtype")
		}
		g.U8(&x.Algorithm)
		g.gateway(x.GatewayType, &x.GatewayAddr, &x.GatewayHost)
		g.B64(&x.PublicKey, g.blob1OrRec())
	case *AMTRELAY:
		g.U8(&x.Precedence)
		if !g.check {
			d := uint8(g.choice(g.nm()+"d", 2)) << 7
			x.GatewayType = d | uint8(g.choice(g.nm()+"gt", 4))
			g.wire = append(g.wire, x.GatewayType)
			g.rec(vField{u: uint64(x.GatewayType)})
		} else if f := g.next(); uint64(x.GatewayType) != f.u {
			g.fail("gwtype")
		}
		g.gateway(x.GatewayType&0x7f, &x.GatewayAddr, &x.GatewayHost)
	case *SVCB:
		g.svcb(x)
	case *HTTPS:
		g.svcb(&x.SVCB)
	case *APL:
		g.apl(x)
	case *HIP:
		var hit, pk []byte
		if !g.check {
			hit = g.blob(1 + g.choice(g.nm()+"hl", g.maxBlob))
			pk = g.blob1(1 + g.choice(g.nm()+"pl", g.maxBlob))
		}
		g.LenU8(&x.HitLength, len(hit))
		g.U8(&x.PublicKeyAlgorithm)
		g.LenU16(&x.PublicKeyLength, len(pk))
		g.Hex(&x.Hit, hit)
		g.B64(&x.PublicKey, pk)
		if !g.check {
			n := g.choice(g.nm()+"rs", g.maxList+1)
			x.RendezvousServers = make([]string, n)
			for i := range x.RendezvousServers {
				g.Name(&x.RendezvousServers[i], false)
			}
			g.rec(vField{u: uint64(n)})
		} else {
			for i := range x.RendezvousServers {
				g.Name(&x.RendezvousServers[i], false)
			}
			if f := g.next(); int(f.u) != len(x.RendezvousServers) {
				g.fail("hip-servers")
			}
		}
	case *TKEY:
		g.Name(&x.Algorithm, false)
		g.U32(&x.Inception)
		g.U32(&x.Expiration)
		g.U16(&x.Mode)
		g.U16(&x.Error)
		key := g.blobOrRec()
		g.LenU16(&x.KeySize, len(key))
		g.Hex(&x.Key, key)
		other := g.blobOrRec()
		g.LenU16(&x.OtherLen, len(other))
		g.Hex(&x.OtherData, other)
	case *TSIG:
		g.Name(&x.Algorithm, false)
		g.U48(&x.TimeSigned)
		g.U16(&x.Fudge)
		mac := g.blobOrRec()
		g.LenU16(&x.MACSize, len(mac))
		g.Hex(&x.MAC, mac)
		g.U16(&x.OrigId)
		g.U16(&x.Error)
		other := g.blobOrRec()
		g.LenU16(&x.OtherLen, len(other))
		g.Hex(&x.OtherData, other)
	case *ANY, *NXNAME:
		// empty RDATA
	default:
		return false
	}
	return true
}

// vTypesSimple lists the registry types covered by vVisit (OPT has its own generator, zz_verif_gen_opt.go).
var vTypesSimple = []uint16{
	TypeA, TypeAAAA, TypeNS, TypeMD, TypeMF, TypeCNAME, TypeMB, TypeMG, TypeMR, TypePTR, TypeSOA, TypeMINFO, TypeMX, TypeHINFO,
	TypeTXT, TypeSPF, TypeAVC, TypeNINFO, TypeRESINFO, TypeUINFO, TypeX25, TypeISDN, TypeGPOS, TypeNULL, TypeRP, TypeTALINK,
	TypeDNAME, TypeNSAPPTR, TypeAFSDB, TypeRT, TypeKX, TypeLP, TypePX, TypeSRV, TypeNAPTR, TypeCERT, TypeDNSKEY, TypeKEY,
	TypeCDNSKEY, TypeRKEY, TypeOPENPGPKEY, TypeDHCID, TypeDS, TypeCDS, TypeDLV, TypeTA, TypeSSHFP, TypeTLSA, TypeSMIMEA,
	TypeZONEMD, TypeEID, TypeNIMLOC, TypeRRSIG, TypeSIG, TypeNSEC, TypeNXT, TypeCSYNC, TypeNSEC3, TypeNSEC3PARAM, TypeLOC,
	TypeNID, TypeL64, TypeL32, TypeEUI48, TypeEUI64, TypeUID, TypeGID, TypeURI, TypeCAA, TypeIPSECKEY, TypeAMTRELAY, TypeHIP,
	TypeTKEY, TypeTSIG, TypeANY, TypeNXNAME, TypeSVCB, TypeHTTPS, TypeAPL,
}

// vBuildRR draws a record of type t: returns the record, its full reference wire form, and the generator.
func vBuildRR(pfx string, t uint16) (RR, []byte, *vGen) { return vBuildRRLike(pfx, t, nil, -1) }

// vBuildRRLike draws a record with the same shape (all length/variant choices) as the one drawn by like.
func vBuildRRLike(pfx string, t uint16, like *vGen, mut int) (RR, []byte, *vGen) {
	return vBuildRRWith(pfx, t, func(g *vGen) {
		if like != nil {
			g.replay = append([]int{}, like.choices...)
			g.like = like
			g.mut = mut
		}
	})
}

func vBuildRRWith(pfx string, t uint16, setup func(g *vGen)) (RR, []byte, *vGen) {
	g := vNewGen(pfx)
	setup(g)
	mk := TypeToRR[t]
	var rr RR
	if mk != nil {
		rr = mk()
	} else {
		rr = new(RFC3597)
	}
	owner := g.owner
	if owner == nil {
		owner = g.drawLabels()
	}
	os, esc := refEscapeName(owner)
	if esc {
		g.esc = true
	}
	h := rr.Header()
	h.Name = os
	h.Rrtype = t
	h.Class = g.dU16()
	h.Ttl = g.dU32()
	if !vVisit(g, rr) {
		return nil, nil, g
	}
	w := refWire(owner)
	w = append(w, byte(t>>8), byte(t), byte(h.Class>>8), byte(h.Class), byte(h.Ttl>>24), byte(h.Ttl>>16), byte(h.Ttl>>8), byte(h.Ttl))
	w = append(w, byte(len(g.wire)>>8), byte(len(g.wire)))
	w = append(w, g.wire...)
	g.rec(vField{labels: owner})
	return rr, w, g
}

// vCheckRR compares a decoded record with what vBuildRR drew.
func vCheckRR(g *vGen, rr RR, t uint16, class uint16, ttl uint32) bool {
	g.check = true
	g.pos = 0
	g.ok = true
	if rr == nil {
		return false
	}
	if !vVisit(g, rr) {
		return false
	}
	f := g.next()
	h := rr.Header()
	got, fq, ok := refParseName(h.Name)
	if !ok || !fq || !refLabelsEqual(got, f.labels) {
		g.fail("owner")
	}
	if h.Rrtype != t || h.Class != class || h.Ttl != ttl {
		g.fail("header")
	}
	if g.pos != len(g.exp) {
		g.fail("field-count")
	}
	g.check = false
	return g.ok
}
