package dns

func init() {
	vRegister("H_C10_verify_ref", H_C10_verify_ref)
	vRegister("H_C10_verify_deep", H_C10_verify_deep)
	vRegister("H_C10_sign_ref", H_C10_sign_ref)
	vRegister("H_C10_prechecks", H_C10_prechecks)
	vRegister("H_C10_vacuity", H_C10_vacuity)
	vRegister("H_C16_signverify", H_C16_signverify)
}

// vC10Types: signable types in the order used by the C10.types bound. The first 21 are the RFC 4034 section 6.2
// types (as updated by RFC 6840 section 5.1) that exist in the registry: their embedded names are lower-cased.
var vC10Types = []uint16{TypeNS, TypeMX, TypeSOA, TypeSRV, TypeCNAME, TypeDNAME, TypePTR, TypeRP, TypeMINFO, TypeAFSDB,
	TypeRT, TypeKX, TypePX, TypeNAPTR, TypeSIG, TypeMD, TypeMF, TypeMB, TypeMG, TypeMR, TypeNXT,
	// not lower-cased: no names, or (NSEC, RRSIG, SVCB, HIP, TALINK ...) names kept as they are
	TypeA, TypeTXT, TypeNSEC, TypeHINFO, TypeDNSKEY, TypeTALINK, TypeLP, TypeSVCB}

func refC10Lowercased(t uint16) bool {
	for _, x := range vC10Types[:21] {
		if x == t {
			return true
		}
	}
	return false
}

func vC10Alg() uint8 { return vSigAlgs[vChoice("alg", vParam("C10.algs", len(vSigAlgs)))] }

// vC10Owner: owner labels in five shapes; one letter is symbolic (either case).
func vC10Owner() (labels [][]byte, wildcard bool) {
	x := vU8("ownerletter")
	vAssume(x >= 'a' && x <= 'z' || x >= 'A' && x <= 'Z')
	sx := vU8("ownersuffixletter") // the zone label is "ex" with its second letter in either case
	vAssume(sx == 'x' || sx == 'X')
	switch vParam("C10.ownerbase", 0) + vChoice("owner", vParam("C10.owners", 5)) {
	case 0:
		return [][]byte{{x}, {'e', sx}}, false
	case 1: // deeper name (room for wildcard expansions that replace more than one label)
		return [][]byte{{'w'}, {x, 'y'}, {'z'}, {'e', sx}}, false
	case 2: // wildcard owner
		return [][]byte{{'*'}, {x}, {'e', sx}}, true
	case 3: // label that merely starts with an asterisk: not a wildcard
		return [][]byte{{'*', x}, {'e', sx}}, false
	default: // label containing a dot (escaped in presentation form)
		return [][]byte{{x, '.', 'b'}, {'e', sx}}, false
	}
}

// refPresentName: the spelling the library itself gives a name (printable octets raw, the RFC 1035 special
// characters backslash-escaped, everything else as \DDD) - so that the wildcard label reads "*".
func refPresentName(labels [][]byte) string {
	if len(labels) == 0 {
		return "."
	}
	var t []byte
	for _, l := range labels {
		for _, b := range l {
			switch {
			case b == '.' || b == ' ' || b == '\'' || b == '@' || b == ';' || b == '(' || b == ')' || b == '"' || b == '\\':
				t = append(t, '\\', b)
			case b < 0x21 || b > 0x7E:
				t = append(t, refDDD(b)...)
			default:
				t = append(t, b)
			}
		}
		t = append(t, '.')
	}
	return string(t)
}

func refLowerLabels(labels [][]byte) [][]byte {
	out := make([][]byte, len(labels))
	for i, l := range labels {
		out[i] = make([]byte, len(l))
		for j, c := range l {
			out[i][j] = refLowerByte(c)
		}
	}
	return out
}

// vC10Set builds an RRset of n records of type t with a common owner and class and returns, per record, its
// canonical RDATA (RFC 4034 section 6.2 item 3).
func vC10Set(t uint16, owner string, ownerLabels [][]byte, n int) (rrs []RR, rdatas [][]byte, class uint16) {
	class = ClassINET
	if vParam("C10.classes", 1) > 1 && vChoice("class", 2) == 1 {
		class = ClassCHAOS
	}
	var g0 *vGen
	for i := 0; i < n; i++ {
		rr, _, g := vBuildRRWith("r"+vItoa(i), t, func(g *vGen) {
			g.owner = ownerLabels
			// records of NS, MX and TXT sets (all types with C10.freeall=1) draw their own shape, so RDATA lengths differ
			// within a set; for the other types every record has the shape (field lengths) of the first one
			free := t == TypeNS || t == TypeMX || t == TypeTXT || vParam("C10.freeall", 0) == 1
			if g0 != nil && !free {
				g.replay = append([]int{}, g0.choices...)
			}
		})
		vAssume(rr != nil)
		if g0 == nil {
			g0 = g
		}
		h := rr.Header()
		h.Name, h.Class = owner, class
		h.Ttl = vU32("ttl" + vItoa(i)) // current TTLs differ and must not matter
		rd := append([]byte{}, g.wire...)
		if refC10Lowercased(t) {
			for _, off := range g.nameOffs {
				for off < len(rd) && rd[off] != 0 {
					l := int(rd[off])
					for k := 1; k <= l; k++ {
						rd[off+k] = refLowerByte(rd[off+k])
					}
					off += l + 1
				}
			}
		}
		rrs = append(rrs, rr)
		rdatas = append(rdatas, rd)
	}
	return
}

func refBytesLess(a, b []byte) bool {
	for i := 0; i < len(a) && i < len(b); i++ {
		if a[i] != b[i] {
			return a[i] < b[i]
		}
	}
	return len(a) < len(b)
}

// refC10Signed: RFC 4034 section 3.1.8.1: RRSIG RDATA (signer name in canonical form, no signature) followed by
// the RRs in canonical form and canonical order without duplicates.
func refC10Signed(s *RRSIG, signerLabels, ownerLabels [][]byte, t, class uint16, rdatas [][]byte) []byte {
	out := []byte{byte(s.TypeCovered >> 8), byte(s.TypeCovered), s.Algorithm, s.Labels,
		byte(s.OrigTtl >> 24), byte(s.OrigTtl >> 16), byte(s.OrigTtl >> 8), byte(s.OrigTtl),
		byte(s.Expiration >> 24), byte(s.Expiration >> 16), byte(s.Expiration >> 8), byte(s.Expiration),
		byte(s.Inception >> 24), byte(s.Inception >> 16), byte(s.Inception >> 8), byte(s.Inception),
		byte(s.KeyTag >> 8), byte(s.KeyTag)}
	out = append(out, refWire(refLowerLabels(signerLabels))...)
	// owner: lower case; if it has more labels than the RRSIG Labels field it is the expansion of a wildcard
	ol := refLowerLabels(ownerLabels)
	if len(ol) > int(s.Labels) {
		ol = append([][]byte{{'*'}}, ol[len(ol)-int(s.Labels):]...)
	}
	ow := refWire(ol)
	// sort RDATAs (insertion sort), drop duplicates
	rs := append([][]byte{}, rdatas...)
	for i := 1; i < len(rs); i++ {
		for j := i; j > 0 && refBytesLess(rs[j], rs[j-1]); j-- {
			rs[j], rs[j-1] = rs[j-1], rs[j]
		}
	}
	for i, rd := range rs {
		if i > 0 && refBytesEqual(rd, rs[i-1]) {
			continue
		}
		out = append(out, ow...)
		out = append(out, byte(t>>8), byte(t), byte(class>>8), byte(class),
			byte(s.OrigTtl>>24), byte(s.OrigTtl>>16), byte(s.OrigTtl>>8), byte(s.OrigTtl),
			byte(len(rd)>>8), byte(len(rd)))
		out = append(out, rd...)
	}
	return out
}

// refC10Labels: RFC 4034 section 3.1.3.
func refC10Labels(owner [][]byte) uint8 {
	n := len(owner)
	if n > 0 && len(owner[0]) == 1 && owner[0][0] == '*' {
		n--
	}
	return uint8(n)
}

func vC10Signer() (string, [][]byte) {
	c := vU8("signerletter")
	vAssume(c == 'e' || c == 'E')
	return string([]byte{c, 'x', '.'}), [][]byte{{c, 'x'}}
}

type vC10Case struct {
	alg         uint8
	t, class    uint16
	owner       [][]byte
	ownerText   string
	rrs         []RR
	rdatas      [][]byte
	signer      string
	signerLabel [][]byte
	key         *DNSKEY
}

func vC10Build() *vC10Case {
	c := &vC10Case{}
	c.alg = vC10Alg()
	c.t = vC10Types[vChoice("type", vParam("C10.types", len(vC10Types)))]
	c.owner, _ = vC10Owner()
	c.ownerText = refPresentName(c.owner)
	n := 1 + vChoice("n", vParam("C10.n", 2))
	c.rrs, c.rdatas, c.class = vC10Set(c.t, c.ownerText, c.owner, n)
	// presentation of the set: optionally reversed order, optionally one record repeated
	switch vChoice("presentation", 3) {
	case 1: // reversed
		for i, j := 0, len(c.rrs)-1; i < j; i, j = i+1, j-1 {
			c.rrs[i], c.rrs[j] = c.rrs[j], c.rrs[i]
			c.rdatas[i], c.rdatas[j] = c.rdatas[j], c.rdatas[i]
		}
	case 2: // first record repeated at the end
		c.rrs = append(c.rrs, c.rrs[0].copy())
		c.rdatas = append(c.rdatas, c.rdatas[0])
	}
	c.signer, c.signerLabel = vC10Signer()
	c.key = vTestDNSKEY("ex.", c.alg)
	c.key.Hdr.Class = c.class
	return c
}

// H_C10_verify_ref: a signature made by the reference over the RFC canonical octets is accepted by Verify, for
// every record order, repeated record, current TTL, owner/RDATA-name letter case, and for wildcard expansions.
func H_C10_verify_ref() {
	c := vC10Build()
	s := &RRSIG{Hdr: RR_Header{Name: c.ownerText, Rrtype: TypeRRSIG, Class: c.class, Ttl: vU32("sigttl")}}
	s.TypeCovered, s.Algorithm = c.t, c.alg
	s.Labels = refC10Labels(c.owner)
	if !(len(c.owner[0]) == 1 && c.owner[0][0] == '*') && len(c.owner) > 1 {
		// the RRset was synthesised from a wildcard 1..2 labels up (RFC 4035 5.3.2: "*." + the rightmost Labels labels)
		s.Labels -= uint8(vChoice("expanded", min(len(c.owner)-1, 3))) // Labels stays >= 1
	}
	s.OrigTtl, s.Expiration, s.Inception = vU32("origttl"), vU32("expir"), vU32("incep")
	s.KeyTag = refKeyTag(append([]byte{byte(c.key.Flags >> 8), byte(c.key.Flags), c.key.Protocol, c.key.Algorithm}, vPubOctets(c.alg)...))
	s.SignerName = c.signer
	data := refC10Signed(s, c.signerLabel, c.owner, c.t, c.class, c.rdatas)
	s.Signature = refBase64(vSignRef(c.alg, data))
	vReach("ref-signed")
	err := s.Verify(c.key, c.rrs)
	vObserve("verify", c.t, len(c.rrs), err)
	vAssert(err == nil, "verify-accepts-signature-over-rfc4034-canonical-octets")
}

// H_C10_verify_deep: the same harness, run with the four-label owner (C10.ownerbase=1) so that wildcard
// expansions replacing two labels are inside.
func H_C10_verify_deep() { H_C10_verify_ref() }

// H_C16_signverify: signing and verifying an RRset are read-only on the records (C16): whatever the current TTLs
// (in particular equal to the RRSIG's original TTL), owner case and RDATA-name case are, the caller's records are
// bit-for-bit what they were.
func H_C16_signverify() {
	c := vC10Build()
	var snaps []int
	for _, rr := range c.rrs {
		snaps = append(snaps, vSnapshot(rr))
	}
	s := &RRSIG{KeyTag: c.key.KeyTag(), SignerName: c.signer, Algorithm: c.alg, Expiration: vU32("expir"), Inception: vU32("incep")}
	if vChoice("origttl", 2) == 1 {
		s.OrigTtl = vU32("origttl")
	}
	err := s.Sign(vSigner{c.alg}, c.rrs)
	vReach("signed")
	for i, rr := range c.rrs {
		vAssert(vSame(rr, snaps[i]), "sign-leaves-the-rrset-unchanged")
	}
	if err != nil {
		return
	}
	err = s.Verify(c.key, c.rrs)
	vObserve("signverify", c.t, err)
	for i, rr := range c.rrs {
		vAssert(vSame(rr, snaps[i]), "verify-leaves-the-rrset-unchanged")
	}
}

// H_C10_sign_ref: Sign fills the RRSIG per RFC 4034 section 3.1, its signature is valid for the RFC canonical octets
// under the reference verifier, and Verify accepts it.
func H_C10_sign_ref() {
	c := vC10Build()
	s := &RRSIG{}
	s.KeyTag = vU16("keytag")
	vAssume(s.KeyTag != 0)
	s.SignerName, s.Algorithm = c.signer, c.alg
	s.Expiration, s.Inception = vU32("expir"), vU32("incep")
	if vChoice("origttl", 2) == 1 {
		s.OrigTtl = vU32("origttl")
		vAssume(s.OrigTtl != 0)
	}
	wantTTL := s.OrigTtl
	if wantTTL == 0 {
		wantTTL = c.rrs[0].Header().Ttl
	}
	err := s.Sign(vSigner{c.alg}, c.rrs)
	vReach("signed")
	vObserve("sign", c.t, len(c.rrs), err)
	vAssert(err == nil, "sign-succeeds")
	if err != nil {
		return
	}
	vAssert(s.Hdr.Rrtype == TypeRRSIG && s.Hdr.Class == c.class && s.TypeCovered == c.t && s.OrigTtl == wantTTL, "rrsig-fields-copied-from-rrset")
	on, ofq, ook := refParseName(s.Hdr.Name)
	vAssert(ook && ofq && refLabelsEqual(on, c.owner), "rrsig-owner-is-rrset-owner")
	vAssert(s.Labels == refC10Labels(c.owner), "labels-field-is-rfc4034-3.1.3")
	if s.Labels != refC10Labels(c.owner) {
		return
	}
	sig, okb := refUnbase64(s.Signature)
	vAssert(okb, "signature-is-base64")
	data := refC10Signed(s, c.signerLabel, c.owner, c.t, c.class, c.rdatas)
	vAssert(vVerifyRef(c.alg, data, sig), "signature-is-over-rfc4034-canonical-octets")
	// completeness: with the key tag of the matching key the result verifies
	s.KeyTag = c.key.KeyTag()
	s2 := &RRSIG{KeyTag: s.KeyTag, SignerName: c.signer, Algorithm: c.alg, Expiration: s.Expiration, Inception: s.Inception, OrigTtl: s.OrigTtl}
	vAssert(s2.Sign(vSigner{c.alg}, c.rrs) == nil, "sign-succeeds-2")
	vAssert(s2.Verify(c.key, c.rrs) == nil, "sign-then-verify-succeeds")
}

// H_C10_prechecks: starting from a reference-signed RRset, one aspect of what is presented to Verify is replaced by
// an independent symbolic value; Verify may only succeed if that value is (case-insensitively, for names) the
// signed one and the key is a zone key with protocol 3 whose tag/algorithm/class/name match.
func H_C10_prechecks() {
	alg := vC10Alg()
	t := []uint16{TypeMX, TypeA}[vChoice("type", 2)]
	owner := [][]byte{{vU8("ownerletter")}, []byte("ex")}
	vAssume(owner[0][0] >= 'a' && owner[0][0] <= 'z')
	ownerText, _ := refEscapeName(owner)
	rrs, rdatas, class := vC10Set(t, ownerText, owner, 1)
	key := vTestDNSKEY("ex.", alg)
	key.Hdr.Class = class
	keyRdata := append([]byte{byte(key.Flags >> 8), byte(key.Flags), key.Protocol, key.Algorithm}, vPubOctets(alg)...)
	s := &RRSIG{Hdr: RR_Header{Name: ownerText, Rrtype: TypeRRSIG, Class: class, Ttl: 300}}
	s.TypeCovered, s.Algorithm, s.Labels = t, alg, 2
	s.OrigTtl, s.Expiration, s.Inception = vU32("origttl"), vU32("expir"), vU32("incep")
	s.KeyTag = refKeyTag(keyRdata)
	s.SignerName = "ex."
	data := refC10Signed(s, [][]byte{[]byte("ex")}, owner, t, class, rdatas)
	sig := vSignRef(alg, data)
	s.Signature = refBase64(sig)
	same := true // is the presented value the signed one?
	what := vChoice("field", 17)
	switch what {
	case 0:
		key.Flags = vU16("x16")
	case 1:
		key.Protocol = vU8("x8")
	case 2:
		v := vU16("x16")
		same = v == s.KeyTag
		s.KeyTag = v
	case 3:
		key.Hdr.Class = vU16("x16")
		same = key.Hdr.Class == class
	case 4:
		s.Hdr.Class = vU16("x16")
		same = s.Hdr.Class == class
	case 5:
		switch vChoice("keyowner", 4) {
		case 0:
			c := vU8("x8")
			vAssume(c >= 'A' && c <= 'z' && c != '\\')
			key.Hdr.Name = string([]byte{c, 'x', '.'})
			same = refLowerByte(c) == 'e'
		case 1: // key owned by a child of the signer
			key.Hdr.Name, same = "sub.ex.", false
		case 2: // ... by the parent
			key.Hdr.Name, same = ".", false
		default: // ... by a sibling that has the signer as a string suffix
			key.Hdr.Name, same = "xex.", false
		}
	case 6:
		c := vU8("x8")
		vAssume(c >= 'A' && c <= 'z' && c != '\\')
		s.SignerName = string([]byte{c, 'x', '.'})
		same = refLowerByte(c) == 'e'
	case 7:
		v := vU16("x16")
		same = v == t
		s.TypeCovered = v
	case 8:
		v := vU8("x8")
		same = v == s.Labels
		s.Labels = v
	case 9:
		v := vU32("x32")
		same = v == s.OrigTtl
		s.OrigTtl = v
	case 10:
		v := vU32("x32")
		same = v == s.Expiration
		s.Expiration = v
	case 11:
		v := vU32("x32")
		same = v == s.Inception
		s.Inception = v
	case 12: // one signature octet replaced
		p := []int{0, len(sig) / 2, len(sig) - 1}[vChoice("sigpos", 3)]
		v := vU8("x8")
		same = v == sig[p]
		sig2 := append([]byte{}, sig...)
		sig2[p] = v
		s.Signature = refBase64(sig2)
	case 13: // RRset owner letter
		c := vU8("x8")
		vAssume(c >= 'A' && c <= 'z' && c != '\\')
		n := string([]byte{c}) + ".ex."
		rrs[0].Header().Name = n
		s.Hdr.Name = n
		same = refLowerByte(c) == owner[0][0]
	case 14: // RRset class (RRSIG class follows it, so only the signed octets differ)
		v := vU16("x16")
		rrs[0].Header().Class = v
		s.Hdr.Class = v
		key.Hdr.Class = v
		same = v == class
	case 15: // RDATA: preference / address octet
		switch x := rrs[0].(type) {
		case *MX:
			v := vU16("x16")
			same = v == x.Preference
			x.Preference = v
		case *A:
			v := vU8("x8")
			ip := append([]byte{}, x.A.To4()...)
			same = v == ip[3]
			ip[3] = v
			x.A = ip
		}
	default: // algorithm field of the RRSIG
		v := vU8("x8")
		same = v == alg
		s.Algorithm = v
	}
	vReach("perturbed")
	err := s.Verify(key, rrs)
	if what != 12 { // (a replaced signature octet: whether it is "the same" depends on stub vs real signature octets)
		vObserve("precheck", what, same, err)
	}
	if err == nil {
		vAssert(same, "verify-succeeds-only-for-the-signed-value")
		vAssert(key.Flags&ZONE != 0 && key.Protocol == 3, "verify-succeeds-only-for-zone-key-protocol-3")
		kr := append([]byte{byte(key.Flags >> 8), byte(key.Flags), key.Protocol, key.Algorithm}, vPubOctets(alg)...)
		vAssert(s.KeyTag == refKeyTag(kr) && s.Algorithm == key.Algorithm && s.Hdr.Class == key.Hdr.Class, "verify-succeeds-only-if-tag-algorithm-class-match-key")
	} else if same && key.Flags&ZONE != 0 && key.Protocol == 3 && refKeyTag(append([]byte{byte(key.Flags >> 8), byte(key.Flags), key.Protocol, key.Algorithm}, vPubOctets(alg)...)) == s.KeyTag {
		vAssert(false, "unchanged-input-with-valid-key-verifies")
	}
}

func H_C10_vacuity() {
	c := vC10Build()
	vAssert(len(c.rrs) == 0, "vacuity-twin")
}
