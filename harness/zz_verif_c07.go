package dns

import "strings"

func init() {
	vRegister("H_C07_hostile", H_C07_hostile)
	vRegister("H_C07_limits", H_C07_limits)
	vRegister("H_C07_vacuity", H_C07_vacuity)
}

// vC07Text places n symbolic octets into one of the lexical contexts of a zone file.
func vC07Text() (string, int) {
	n := 1 + vChoice("n", vParam("C07.octets", 2))
	x := vBytes("x", n)
	ctx := vChoice("ctx", 16)
	ascii := func() {
		// contexts whose token is upper-cased for keyword lookup: ASCII only (non-ASCII input sends strings.ToUpper
		// through the Unicode tables); quoted strings, comments and RDATA take all 256 values
		for _, c := range x {
			vAssume(c < 0x80)
		}
	}
	// quoted strings and comments take all 256 values, but a non-ASCII octet may not be combined with an octet that
	// ends the quoted string or comment (then the non-ASCII octet would reach the keyword lookup, see above)
	contained := func(terminators string) {
		hi := false
		for _, c := range x {
			if c >= 0x80 {
				hi = true
			}
		}
		if hi {
			for _, c := range x {
				for i := 0; i < len(terminators); i++ {
					vAssume(c != terminators[i])
				}
			}
		}
	}
	xs := string(x)
	good := "z 60 IN A 192.0.2.9\n"
	var text string
	switch ctx {
	case 0:
		ascii()
		text = xs + " 60 IN A 192.0.2.1\n" + good
	case 1:
		ascii()
		text = "a " + xs + " IN A 192.0.2.1\n" + good
	case 2:
		contained("\"\\\n")
		text = "a 60 IN TXT \"" + xs + "\"\n" + good
	case 3:
		ascii()
		text = "a 60 IN MX ( 10 " + xs + " )\n" + good
	case 4:
		ascii()
		text = "a\\" + xs + " 60 IN A 192.0.2.1\n" + good
	case 5:
		contained("\n")
		text = "a 60 IN A 192.0.2.1 ;" + xs + "\n" + good
	case 6:
		ascii()
		for _, c := range x { // (well-formed ranges have their own harness: the library formats the iterator with fmt)
			vAssume(c != '-')
		}
		text = "$GENERATE " + xs + " h$ 60 IN A 192.0.2.$\n" + good
	case 7:
		ascii()
		text = "$GENERATE 1-2 h" + xs + " 60 IN A 192.0.2.$\n" + good
	case 8:
		ascii()
		text = "$INCLUDE " + xs + "\n" + good
	case 9:
		ascii()
		text = "a 60 IN A " + xs + "\n" + good
	case 10:
		ascii()
		text = "a 60 IN TXT " + xs + "\n" + good
	case 11: // a token that crosses the lexer's buffer size
		ascii()
		text = strings.Repeat("a", 2040) + xs + strings.Repeat("b", 20) + " 60 IN A 192.0.2.1\n" + good
	case 12: // a comment longer than the lexer's buffer inside parentheses, then more tokens and another comment
		contained("\n")
		text = "a 60 IN MX ( 10 ; " + strings.Repeat("c", 1100) + xs + "\n m ; second" + xs + "\n)\n" + good
	case 13: // ... and the text ending right after the next token
		contained("\n")
		text = "a 60 IN MX ( 10 ; " + strings.Repeat("c", 600) + xs + "\n m "
	case 14: // a quoted string longer than the lexer's buffer
		contained("\"\\\n")
		text = "a 60 IN TXT \"" + strings.Repeat("q", 2040) + xs + strings.Repeat("r", 20) + "\"\n" + good
	default: // the text ends inside the symbolic part (unterminated quote / parenthesis / escape)
		contained("\"\\\n")
		text = "a 60 IN TXT ( \"q" + xs
	}
	return text, ctx
}

// H_C07_hostile: whatever the octets, reading terminates without panic in bounded work, the first problem is
// reported as a ParseError with file and line, nothing is returned after an error, and no file is opened unless
// includes are enabled.
func H_C07_hostile() {
	text, ctx := vC07Text()
	allowed := vChoice("includeallowed", 2) == 1
	fsys := &vC06FS{files: map[string]string{"inc": "i 60 IN A 192.0.2.7\n"}}
	zp := NewZoneParser(strings.NewReader(text), "ex.", "zone")
	zp.SetIncludeAllowed(allowed)
	zp.SetIncludeFS(fsys)
	vReach("hostile")
	s0 := vSteps()
	records := 0
	for {
		rr, ok := zp.Next()
		if !ok {
			vAssert(rr == nil, "no-record-with-the-end-signal")
			break
		}
		records++
		vAssert(rr != nil, "record-with-ok")
		if records > 200 {
			vAssert(false, "more-records-than-the-input-can-denote")
			return
		}
	}
	vObserve("hostile", ctx, records, zp.Err())
	if vSymbolic() {
		vAssert(vSteps()-s0 < 3000000, "work-is-bounded")
	}
	err := zp.Err()
	for i := 0; i < 3; i++ {
		rr, ok := zp.Next()
		vAssert(rr == nil && !ok, "nothing-after-the-end-or-an-error")
		vAssert(zp.Err() == err, "first-error-is-kept")
	}
	if err != nil {
		pe, isPE := err.(*ParseError)
		vAssert(isPE, "error-is-a-parse-error")
		if isPE && pe.wrappedErr == nil {
			vAssert(pe.lex.line >= 1, "parse-error-carries-a-line")
		}
		if isPE {
			vAssert(pe.file == "zone" || pe.file == "inc", "parse-error-carries-the-file")
		}
	}
	if !allowed {
		vAssert(len(fsys.opened) == 0, "no-file-opened-unless-includes-are-enabled")
	}
}

// H_C07_limits: include nesting stops at a fixed depth for a file that includes itself; $GENERATE inside $GENERATE
// is rejected; $GENERATE ranges of more than 65536 steps are rejected and the largest allowed ones accepted.
func H_C07_limits() {
	switch vChoice("what", 3) {
	case 0:
		l := vLower("l")
		self := "$INCLUDE self.zone\n" + string([]byte{l}) + " 60 IN A 192.0.2.1\n"
		fsys := &vC06FS{files: map[string]string{"self.zone": self}}
		zp := NewZoneParser(strings.NewReader("$INCLUDE self.zone\n"), "ex.", "main.zone")
		zp.SetIncludeAllowed(true)
		zp.SetIncludeFS(fsys)
		vReach("limits")
		n := 0
		for _, ok := zp.Next(); ok; _, ok = zp.Next() {
			n++
			if n > 100 {
				break
			}
		}
		vObserve("selfinclude", n, len(fsys.opened), zp.Err())
		vAssert(zp.Err() != nil, "self-including-file-ends-in-an-error")
		vAssert(len(fsys.opened) >= 1 && len(fsys.opened) <= 8, "include-nesting-stops-at-a-fixed-depth")
		vAssert(n == 0, "no-records-from-an-include-chain-that-failed")
	case 1:
		l := vLower("l")
		inner := []string{"$GENERATE 1-2 " + string([]byte{l}) + "$ 60 IN A 192.0.2.$", "$generate 1-2 x A 192.0.2.1", "\\$GENERATE 1-2 y$ A 192.0.2.$"}[vChoice("inner", 3)]
		zp := NewZoneParser(strings.NewReader("$GENERATE 1-3 "+inner+"\n"), "ex.", "zone")
		vReach("limits")
		n := 0
		for _, ok := zp.Next(); ok; _, ok = zp.Next() {
			n++
			if n > 100 {
				break
			}
		}
		vObserve("nested", n, zp.Err())
		vAssert(zp.Err() != nil && n == 0, "generate-inside-generate-is-rejected")
	default:
		cases := []struct {
			rng string
			ok  bool
		}{{"0-65535", true}, {"0-65536", false}, {"0-131071/2", true}, {"0-131072/2", false}, {"5-4", false}, {"1-1/0", false},
			{"9223372036854775807-9223372036854775807", true}, {"0-9223372036854775807", false}, {"-1-2", false}, {"1-2/-1", false},
			// one step only: start+step overflows int64
			{"9223372036854775806-9223372036854775807/2", true}, {"1-9223372036854775807/9223372036854775807", true}, {"7-7", true}}
		c := cases[vChoice("range", len(cases))]
		l := vLower("l")
		zp := NewZoneParser(strings.NewReader("$GENERATE "+c.rng+" "+string([]byte{l})+" 60 IN A 192.0.2.1\n"), "ex.", "zone")
		vReach("limits")
		rr, ok := zp.Next()
		vObserve("range", ok, zp.Err())
		if c.ok {
			vAssert(ok && rr != nil && zp.Err() == nil, "range-within-65536-steps-is-accepted")
			if c.rng != "0-65535" && c.rng != "0-131071/2" { // single-step ranges: exactly one record, then the end
				n := 1
				for _, more := zp.Next(); more; _, more = zp.Next() {
					n++
					if n > 5 {
						break
					}
				}
				vAssert(n == 1 && zp.Err() == nil, "single-step-range-yields-one-record")
			}
		} else {
			vAssert(!ok && rr == nil && zp.Err() != nil, "range-beyond-65536-steps-or-malformed-is-rejected")
		}
	}
}

func H_C07_vacuity() {
	text, _ := vC07Text()
	vAssert(len(text) == 0, "vacuity-twin")
}
