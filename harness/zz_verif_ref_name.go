package dns

// Reference model for domain names, written from RFC 1035 §3.1/§5.1 and RFC 4343,
// independent of the library's own name code.

// refIsDigit reports an ASCII decimal digit.
func refIsDigit(b byte) bool { return b >= '0' && b <= '9' }

// refParseName decodes presentation text into wire labels (RFC 1035 §5.1):
// labels are separated by unescaped dots, "\DDD" is the octet with decimal value DDD,
// "\X" (X not a digit) is the octet X. fq reports a trailing unescaped dot (or the root ".").
// ok is false for an empty label, a dangling backslash, a \DDD > 255 or empty input.
func refParseName(s string) (labels [][]byte, fq bool, ok bool) {
	if s == "" {
		return nil, false, false
	}
	if s == "." {
		return nil, true, true
	}
	var cur []byte
	i := 0
	n := len(s)
	for i < n {
		c := s[i]
		switch {
		case c == '\\':
			if i+1 >= n {
				return nil, false, false
			}
			if refIsDigit(s[i+1]) {
				if i+3 >= n || !refIsDigit(s[i+2]) || !refIsDigit(s[i+3]) {
					// "\D" followed by fewer than three digits: RFC 1035 only defines \DDD;
					// the library treats it as \X with X the digit. Follow the lenient reading.
					cur = append(cur, s[i+1])
					i += 2
					continue
				}
				v := int(s[i+1]-'0')*100 + int(s[i+2]-'0')*10 + int(s[i+3]-'0')
				if v > 255 {
					return nil, false, false
				}
				cur = append(cur, byte(v))
				i += 4
				continue
			}
			cur = append(cur, s[i+1])
			i += 2
		case c == '.':
			if len(cur) == 0 {
				return nil, false, false
			}
			labels = append(labels, cur)
			cur = nil
			i++
			if i == n {
				return labels, true, true
			}
		default:
			cur = append(cur, c)
			i++
		}
	}
	if len(cur) == 0 {
		return nil, false, false
	}
	labels = append(labels, cur)
	return labels, false, true
}

// refWire serialises labels to uncompressed wire format (with the root octet).
func refWire(labels [][]byte) []byte {
	var w []byte
	for _, l := range labels {
		w = append(w, byte(len(l)))
		w = append(w, l...)
	}
	return append(w, 0)
}

// refWireLen is the wire length of the name including the root octet.
func refWireLen(labels [][]byte) int {
	n := 1
	for _, l := range labels {
		n += 1 + len(l)
	}
	return n
}

func refLowerByte(b byte) byte {
	if b >= 'A' && b <= 'Z' {
		return b + ('a' - 'A')
	}
	return b
}

func refLabelEqualFold(a, b []byte) bool {
	if len(a) != len(b) {
		return false
	}
	eq := true
	for i := range a {
		if refLowerByte(a[i]) != refLowerByte(b[i]) {
			eq = false
		}
	}
	return eq
}

func refBytesEqual(a, b []byte) bool {
	if len(a) != len(b) {
		return false
	}
	eq := true
	for i := range a {
		if a[i] != b[i] {
			eq = false
		}
	}
	return eq
}

// refCommonSuffix counts the labels two names share from the right, ASCII case-insensitively.
func refCommonSuffix(a, b [][]byte) int {
	n := 0
	for i, j := len(a)-1, len(b)-1; i >= 0 && j >= 0; i, j = i-1, j-1 {
		if !refLabelEqualFold(a[i], b[j]) {
			break
		}
		n++
	}
	return n
}

// refLabelsValid: every label 1..63 octets and the whole name at most 255 octets on the wire.
func refLabelsValid(labels [][]byte) bool {
	for _, l := range labels {
		if len(l) == 0 || len(l) > 63 {
			return false
		}
	}
	return refWireLen(labels) <= 255
}

// vWireLabels draws nl labels with symbolic octets; label lengths are shape choices 1..maxOct.
func vWireLabels(name string, nl, maxOct int) [][]byte {
	labels := make([][]byte, nl)
	for i := range labels {
		ln := 1 + vChoice(name+".len"+string(rune('0'+i)), maxOct)
		labels[i] = vBytes(name+"."+string(rune('0'+i)), ln)
	}
	return labels
}
