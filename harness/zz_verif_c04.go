package dns

func init() {
	vRegister("H_C04_record", H_C04_record)
	vRegister("H_C04_input", H_C04_input)
	vRegister("H_C04_msg", H_C04_msg)
	vRegister("H_C04_window", H_C04_window)
	vRegister("H_C04_vacuity", H_C04_vacuity)
}

// refReadName is an independent RFC 1035 §4.1.4 reader: labels with pointers followed.
// starts collects the offsets at which labels start in the message (valid pointer targets).
// Returns labels, the offset after the name at its original position, the pointer targets used.
func refReadName(msg []byte, off int) (labels [][]byte, next int, ptrs []int, ok bool) {
	next = -1
	hops := 0
	for {
		if off >= len(msg) {
			return nil, 0, nil, false
		}
		c := int(msg[off])
		switch {
		case c == 0:
			if next < 0 {
				next = off + 1
			}
			return labels, next, ptrs, true
		case c&0xC0 == 0xC0:
			if off+1 >= len(msg) {
				return nil, 0, nil, false
			}
			tgt := (c&0x3F)<<8 | int(msg[off+1])
			if next < 0 {
				next = off + 2
			}
			ptrs = append(ptrs, tgt)
			hops++
			if hops > 20 || tgt >= off {
				return nil, 0, nil, false // must point strictly backwards
			}
			off = tgt
		case c&0xC0 == 0:
			if off+1+c > len(msg) {
				return nil, 0, nil, false
			}
			labels = append(labels, append([]byte(nil), msg[off+1:off+1+c]...))
			off += 1 + c
		default:
			return nil, 0, nil, false
		}
	}
}

// refLabelStarts: offsets in msg[from:] at which the labels of the (uncompressed part of a) name start.
func refLabelStarts(msg []byte, off int, starts map[int]bool) {
	for off < len(msg) {
		c := int(msg[off])
		if c == 0 || c&0xC0 != 0 {
			return
		}
		starts[off] = true
		off += 1 + c
	}
}

type vWalk struct {
	msg    []byte
	starts map[int]bool
	ok     bool
	why    string
}

func (w *vWalk) fail(s string) {
	if w.ok {
		w.why = s
	}
	w.ok = false
}

// name reads a name at off, checks it against want (octet-exact) and the pointer rules; returns next offset.
func (w *vWalk) name(off int, want [][]byte, mayCompress bool) int {
	labels, next, ptrs, ok := refReadName(w.msg, off)
	if !ok {
		w.fail("name-unreadable")
		return len(w.msg)
	}
	if !refLabelsEqual(labels, want) {
		w.fail("name-differs")
	}
	if len(ptrs) > 0 && !mayCompress {
		w.fail("compressed-where-not-allowed")
	}
	for _, p := range ptrs {
		if p >= 16384 || p >= off || !w.starts[p] {
			w.fail("bad-pointer-target")
		}
	}
	refLabelStarts(w.msg, off, w.starts)
	return next
}

// record walks one record built by vBuildRR at off in a possibly compressed message.
func (w *vWalk) record(off int, g *vGen, owner [][]byte, t uint16) int {
	off = w.name(off, owner, true)
	if off+10 > len(w.msg) {
		w.fail("short-header")
		return len(w.msg)
	}
	if w.msg[off] != byte(t>>8) || w.msg[off+1] != byte(t) {
		w.fail("type")
	}
	rdlen := int(w.msg[off+8])<<8 | int(w.msg[off+9])
	c := off + 10
	rdStart := c
	u := 0
	ni := 0
	for _, f := range g.exp {
		if f.labels == nil || ni >= len(g.nameOffs) {
			continue
		}
		// opaque chunk before this name
		no := g.nameOffs[ni]
		n := no - u
		if c+n > len(w.msg) || !refBytesEqual(w.msg[c:c+n], g.wire[u:no]) {
			w.fail("rdata-octets")
			return len(w.msg)
		}
		c += n
		c = w.name(c, f.labels, g.nameComp[ni])
		u = no + refWireLen(f.labels)
		ni++
	}
	n := len(g.wire) - u
	if c+n > len(w.msg) || !refBytesEqual(w.msg[c:c+n], g.wire[u:]) {
		w.fail("rdata-tail")
		return len(w.msg)
	}
	c += n
	if c-rdStart != rdlen {
		w.fail("rdlength")
	}
	return c
}

func vFamilyLabels() [][]byte {
	a := vU8("fam.a")
	b := vU8("fam.b")
	vAssume((a >= 'a' && a <= 'z' || a >= 'A' && a <= 'Z') && (b >= 'a' && b <= 'z' || b >= 'A' && b <= 'Z'))
	return [][]byte{{a}, {b, 'x'}}
}

// H_C04_record: one record of every type whose names all equal the question name.
func H_C04_record() {
	t := vPickType()
	fam := vFamilyLabels()
	g0 := vNewGen("r.")
	_ = g0
	rr, _, g := vBuildRRFixed("r.", t, fam)
	if rr == nil {
		return
	}
	qn, _ := refEscapeName(fam)
	m := new(Msg)
	m.Question = []Question{{Name: qn, Qtype: t, Qclass: ClassINET}}
	m.Answer = []RR{rr}
	m.Compress = false
	cu, err1 := m.Pack()
	m.Compress = true
	cc, err2 := m.Pack()
	vReach("packed")
	vObserve("c04", t, cu, cc)
	vAssert(err1 == nil && err2 == nil, "pack-succeeds")
	if err1 != nil || err2 != nil {
		return
	}
	vAssert(len(cc) <= len(cu), "compressed-never-longer")
	for _, msg := range [][]byte{cu, cc} {
		w := &vWalk{msg: msg, starts: map[int]bool{}, ok: true}
		off := w.name(12, fam, true)
		off += 4
		end := w.record(off, g, fam, t)
		vAssert(w.ok, "reference-reader-sees-the-same-record")
		vAssert(!w.ok || end == len(msg), "no-trailing-octets")
	}
	// uncompressed packing contains no pointer at all
	wu := &vWalk{msg: cu, starts: map[int]bool{}, ok: true}
	_, _, p0, _ := refReadName(cu, 12)
	vAssert(len(p0) == 0 && wu.ok, "uncompressed-has-no-pointers")
}

// vBuildRRFixed: like vBuildRR but every name (owner, RDATA) is the given name.
func vBuildRRFixed(pfx string, t uint16, labels [][]byte) (RR, []byte, *vGen) {
	return vBuildRRWith(pfx, t, func(g *vGen) { g.fixedLabels = labels })
}

// H_C04_input: compressed names are accepted on input in the RDATA of every type.
func H_C04_input() {
	t := vPickType()
	fam := vFamilyLabels()
	rr, _, g := vBuildRRFixed("r.", t, fam)
	if rr == nil {
		return
	}
	// reference-built message: question name at 12, every other name is a pointer to offset 12
	msg := []byte{0, 1, 0, 0, 0, 1, 0, 1, 0, 0, 0, 0}
	msg = append(msg, refWire(fam)...)
	msg = append(msg, byte(t>>8), byte(t), 0, 1)
	msg = append(msg, 0xC0, 12) // owner
	h := rr.Header()
	msg = append(msg, byte(t>>8), byte(t), byte(h.Class>>8), byte(h.Class), byte(h.Ttl>>24), byte(h.Ttl>>16), byte(h.Ttl>>8), byte(h.Ttl))
	var rd []byte
	u := 0
	for i, no := range g.nameOffs {
		_ = i
		rd = append(rd, g.wire[u:no]...)
		rd = append(rd, 0xC0, 12)
		u = no + refWireLen(fam)
	}
	rd = append(rd, g.wire[u:]...)
	msg = append(msg, byte(len(rd)>>8), byte(len(rd)))
	msg = append(msg, rd...)
	m := new(Msg)
	err := m.Unpack(msg)
	vReach("input-built")
	vObserve("c04in", t, err)
	vAssert(err == nil && len(m.Answer) == 1, "compressed-rdata-names-accepted")
	if err != nil || len(m.Answer) != 1 {
		return
	}
	vAssert(vCheckRR(g, m.Answer[0], t, h.Class, h.Ttl), "decoded-fields-equal")
}

// H_C04_msg: several records over a suffix-sharing family (letters symbolic, mixed case).
func H_C04_msg() {
	m := new(Msg)
	q := vNameFamily("n.", vChoice("q", 5))
	m.Question = []Question{{Name: q, Qtype: TypeMX, Qclass: ClassINET}}
	if vChoice("q2", 2) == 1 {
		m.Question = append(m.Question, Question{Name: vNameFamily("n.", vChoice("qq", 5)), Qtype: TypeA, Qclass: ClassINET})
	}
	n1 := vNameFamily("n.", vChoice("o1", 5))
	n2 := vNameFamily("n.", vChoice("t1", 5))
	switch vChoice("k1", 3) {
	case 0:
		m.Answer = append(m.Answer, &MX{Hdr: RR_Header{Name: n1, Rrtype: TypeMX, Class: ClassINET}, Preference: vU16("p"), Mx: n2})
	case 1:
		m.Answer = append(m.Answer, &SRV{Hdr: RR_Header{Name: n1, Rrtype: TypeSRV, Class: ClassINET}, Target: n2})
	default:
		m.Answer = append(m.Answer, &SOA{Hdr: RR_Header{Name: n1, Rrtype: TypeSOA, Class: ClassINET}, Ns: n2, Mbox: q})
	}
	m.Ns = append(m.Ns, &NS{Hdr: RR_Header{Name: n2, Rrtype: TypeNS, Class: ClassINET}, Ns: n1})
	m.Compress = false
	cu, e1 := m.Pack()
	m.Compress = true
	cc, e2 := m.Pack()
	vReach("msg-packed")
	vAssert(e1 == nil && e2 == nil, "pack-succeeds")
	if e1 != nil || e2 != nil {
		return
	}
	vAssert(len(cc) <= len(cu), "compressed-never-longer")
	var mu, mc Msg
	vAssert(mu.Unpack(cu) == nil && mc.Unpack(cc) == nil, "both-decode")
	mu.Compress, mc.Compress = false, false
	for _, x := range []*Msg{&mu, &mc} {
		for _, sec := range [][]RR{x.Answer, x.Ns, x.Extra} {
			for _, r := range sec {
				r.Header().Rdlength = 0 // wire bookkeeping: differs by the octets saved
			}
		}
	}
	vAssert(vDeepEqual(&mu, &mc), "compressed-and-uncompressed-decode-alike")
	// names octet-for-octet with case preserved: compare with what was put in
	vAssert(len(mc.Question) == len(m.Question) && mc.Question[0].Name == q, "question-name-preserved")
	vAssert(len(mc.Answer) == 1 && mc.Answer[0].Header().Name == n1, "owner-name-case-preserved")
	vAssert(len(mc.Ns) == 1 && mc.Ns[0].(*NS).Ns == n1 && mc.Ns[0].Header().Name == n2, "rdata-name-case-preserved")
}

// H_C04_window: names beyond offset 16383 are never pointer targets.
func H_C04_window() {
	pad := 16340 + vChoice("pad", 13)*4 // leading opaque record moves the next name across 16384
	m := new(Msg)
	m.Compress = true
	fill := make([]byte, pad)
	for i := range fill {
		fill[i] = 'a'
	}
	m.Answer = append(m.Answer, &NULL{Hdr: RR_Header{Name: ".", Rrtype: TypeNULL, Class: ClassINET}, Data: string(fill)})
	c := vU8("c")
	vAssume(c >= 'a' && c <= 'z')
	n := string([]byte{c, 'b', '.', 'e', 'x', '.'})
	m.Answer = append(m.Answer, &NS{Hdr: RR_Header{Name: n, Rrtype: TypeNS, Class: ClassINET}, Ns: n})
	m.Answer = append(m.Answer, &NS{Hdr: RR_Header{Name: n, Rrtype: TypeNS, Class: ClassINET}, Ns: "x." + n})
	b, err := m.Pack()
	vReach("window-packed")
	vAssert(err == nil, "pack-succeeds")
	if err != nil {
		return
	}
	// walk the three records with the reference reader
	w := &vWalk{msg: b, starts: map[int]bool{}, ok: true}
	off := 12
	off = w.name(off, nil, true) + 10 + pad
	lab := [][]byte{{c, 'b'}, {'e', 'x'}}
	for i := 0; i < 2; i++ {
		off = w.name(off, lab, true) + 10
		if i == 0 {
			off = w.name(off, lab, true)
		} else {
			off = w.name(off, append([][]byte{{'x'}}, lab...), true)
		}
	}
	vAssert(w.ok, "pointers-valid-and-below-16384")
	vAssert(!w.ok || off == len(b), "walk-consumes-message")
	var m2 Msg
	vAssert(m2.Unpack(b) == nil, "library-decodes-it")
}

func H_C04_vacuity() {
	m := new(Msg)
	m.Compress = true
	m.Question = []Question{{Name: "a.b.", Qtype: TypeNS, Qclass: ClassINET}}
	x := vU8("x")
	vAssume(x >= 'a' && x <= 'z')
	m.Answer = []RR{&NS{Hdr: RR_Header{Name: "a.b.", Rrtype: TypeNS, Class: ClassINET}, Ns: string([]byte{x, '.', 'b', '.'})}}
	b, err := m.Pack()
	vAssume(err == nil)
	vAssert(len(b) != 12+5+4+2+10+4, "vacuity-must-fail")
}
