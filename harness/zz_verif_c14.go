package dns

import (
	"net"
	"sync"
)

func init() {
	vRegister("H_C14_admission", H_C14_admission)
	vRegister("H_C14_short", H_C14_short)
	vRegister("H_C14_routing", H_C14_routing)
	vRegister("H_C14_vacuity", H_C14_vacuity)
}

type vC14Rec struct {
	handled  []*Msg
	invalid  int
	invalidE []error
}

// refAccept: the default policy as documented: responses are ignored; opcodes other than QUERY and NOTIFY get
// NOTIMP; anything but exactly one question, at most one answer, at most one authority record and at most two
// additional records gets FORMERR.
func refAccept(h []byte) MsgAcceptAction {
	if h[2]&0x80 != 0 {
		return MsgIgnore
	}
	op := (h[2] >> 3) & 0xF
	if op != 0 && op != 4 {
		return MsgRejectNotImplemented
	}
	qd := uint16(h[4])<<8 | uint16(h[5])
	an := uint16(h[6])<<8 | uint16(h[7])
	ns := uint16(h[8])<<8 | uint16(h[9])
	ar := uint16(h[10])<<8 | uint16(h[11])
	if qd != 1 || an > 1 || ns > 1 || ar > 2 {
		return MsgReject
	}
	return MsgAccept
}

// vC14Packet: 12 symbolic header octets and a body in one of several forms.
func vC14Packet() []byte {
	m := vBytes("h", 12)
	l := vU8("letter")
	vAssume(l >= 'a' && l <= 'z' || l >= 'A' && l <= 'Z')
	q := []byte{1, l, 2, 'e', 'x', 0, 0, vU8("qtype"), 0, 1}
	switch vChoice("body", 6) {
	case 5: // question, one well-formed A record, then 1..N octets of a further record that is cut short
		m = append(m, q...)
		m = append(m, 1, l, 2, 'e', 'x', 0, 0, 1, 0, 1, 0, 0, 0, vU8("attl"), 0, 4, 192, 0, 2, vU8("a3"))
		m = append(m, vNoPtr(vBytes("cutrec", vChoice("ncut", vParam("C14.tail", 3))+1))...)
	case 0: // header only
	case 1: // one well-formed question
		m = append(m, q...)
	case 2: // question cut short
		m = append(m, q[:vChoice("cut", len(q)-1)+1]...)
	case 3: // question followed by arbitrary octets (answer/authority/additional material or garbage)
		m = append(m, q...)
		m = append(m, vNoPtr(vBytes("tail", vChoice("ntail", vParam("C14.tail", 3))+1))...)
	default: // arbitrary octets
		m = append(m, vNoPtr(vBytes("raw", vChoice("nraw", vParam("C14.raw", 3))+1))...)
	}
	return m
}

// vNoPtr: free body octets stay below 0xC0 (no compression pointers): pointer chasing through the symbolic header
// multiplies the decoder's paths and is C02's subject, not this property's.
func vNoPtr(b []byte) []byte {
	for _, c := range b {
		vAssume(c < 0xC0)
	}
	return b
}

// H_C14_admission: exactly-once handling per the accept policy, reject replies, invalid-message reports.
func H_C14_admission() {
	rec := &vC14Rec{}
	srv := &Server{}
	srv.Handler = HandlerFunc(func(w ResponseWriter, r *Msg) { rec.handled = append(rec.handled, r) })
	srv.MsgInvalidFunc = func(m []byte, err error) { rec.invalid++; rec.invalidE = append(rec.invalidE, err) }
	custom := vChoice("policy", 2) == 1
	var customAction MsgAcceptAction
	if custom {
		customAction = MsgAcceptAction(vChoice("action", 4))
		srv.MsgAcceptFunc = func(dh Header) MsgAcceptAction { return customAction }
	}
	srv.init()
	m := vC14Packet()
	orig := append([]byte{}, m...)
	// expectation
	action := customAction
	if !custom {
		action = refAccept(orig)
	}
	ref := new(Msg)
	decodes := ref.Unpack(append([]byte{}, orig...)) == nil
	// run
	var writes [][]byte
	tcp := vChoice("transport", 2) == 1
	vReach("served")
	if tcp {
		conn := &vConn{in: append([]byte{byte(len(m) >> 8), byte(len(m))}, m...)}
		srv.started = true
		var wg sync.WaitGroup
		wg.Add(1)
		srv.serveTCPConn(&wg, conn)
		writes = conn.writes
		for i, w := range writes { // strip and check the two-octet length prefix
			vAssert(len(w) >= 2 && int(w[0])<<8|int(w[1]) == len(w)-2, "tcp-reply-is-length-prefixed")
			if len(w) >= 2 {
				writes[i] = w[2:]
			}
		}
		vAssert(conn.closed, "tcp-connection-closed-after-stream-end")
	} else {
		pc := &vPacketConn{}
		var wg sync.WaitGroup
		wg.Add(1)
		srv.serveUDPPacket(&wg, m, pc, nil, vAddr("client"))
		writes = pc.writes
	}
	vObserve("admission", int(action), decodes, len(rec.handled), rec.invalid, len(writes))
	vAssert(len(rec.handled) <= 1, "handler-called-at-most-once")
	wantHandled := action == MsgAccept && decodes
	vAssert((len(rec.handled) == 1) == wantHandled, "handler-called-iff-accepted-and-decodes")
	if len(rec.handled) == 1 {
		vAssert(vDeepEqual(rec.handled[0], ref), "handler-sees-the-decoded-request")
		vAssert(len(writes) == 0 && rec.invalid == 0, "accepted-request-is-left-to-the-handler")
		return
	}
	switch action {
	case MsgIgnore:
		vAssert(len(writes) == 0 && rec.invalid == 0, "ignored-message-gets-no-reply")
	case MsgAccept: // did not decode
		vAssert(rec.invalid == 1, "undecodable-message-reported-once")
		vAssert(len(writes) <= 1, "at-most-one-reply")
	default:
		vAssert(len(writes) == 1 && rec.invalid == 0, "rejected-message-gets-exactly-one-reply")
	}
	if !custom && orig[2]&0x80 != 0 {
		vAssert(len(writes) == 0, "responses-are-never-answered")
	}
	for _, w := range writes {
		vAssert(len(w) >= 12, "reply-has-a-header")
		if len(w) < 12 {
			continue
		}
		vAssert(w[0] == orig[0] && w[1] == orig[1] && w[2]&0x80 != 0, "reply-carries-request-id-with-qr-set")
		rcode := w[3] & 0xF
		if action == MsgRejectNotImplemented {
			vAssert(rcode == RcodeNotImplemented, "unsupported-opcode-gets-notimp")
			vAssert((w[2]>>3)&0xF == (orig[2]>>3)&0xF, "notimp-echoes-opcode")
		} else {
			vAssert(rcode == RcodeFormatError, "malformed-or-overpopulated-gets-formerr")
		}
		vAssert(w[6] == 0 && w[7] == 0 && w[8] == 0 && w[9] == 0 && w[10] == 0 && w[11] == 0, "reject-reply-has-no-records")
	}
}

// H_C14_short: datagrams shorter than a header are reported to the invalid-message callback by the UDP serve
// loop and nothing else happens; a full-size datagram goes through the per-packet goroutine exactly once.
func H_C14_short() {
	rec := &vC14Rec{}
	srv := &Server{}
	srv.Handler = HandlerFunc(func(w ResponseWriter, r *Msg) { rec.handled = append(rec.handled, r) })
	srv.MsgInvalidFunc = func(m []byte, err error) { rec.invalid++; rec.invalidE = append(rec.invalidE, err) }
	srv.init()
	srv.started = true
	n := vChoice("len", 13)
	var d []byte
	if n < 12 {
		d = vBytes("d", n)
	} else {
		d = []byte{vU8("id0"), vU8("id1"), 0, 0, 0, 1, 0, 0, 0, 0, 0, 0, 1, 'a', 0, 0, 1, 0, 1}
	}
	pc := &vPacketConn{in: [][]byte{d}}
	pc.onEnd = func() { srv.started = false }
	vReach("short")
	err := srv.serveUDP(pc)
	vObserve("short", n, err, rec.invalid, len(rec.handled), len(pc.writes))
	vAssert(err == nil, "serve-loop-ends-cleanly")
	if n < 12 {
		vAssert(rec.invalid == 1 && len(rec.handled) == 0 && len(pc.writes) == 0, "short-datagram-reported-once-and-dropped")
		vAssert(len(rec.invalidE) == 1 && rec.invalidE[0] == ErrShortRead, "short-datagram-reported-as-short-read")
	} else {
		vAssert(rec.invalid == 0 && len(rec.handled) == 1 && len(pc.writes) == 0, "full-datagram-handled-once")
	}
}

type vC14Writer struct{ msgs []*Msg }

func (w *vC14Writer) LocalAddr() net.Addr       { return vAddr("l") }
func (w *vC14Writer) RemoteAddr() net.Addr      { return vAddr("r") }
func (w *vC14Writer) WriteMsg(m *Msg) error     { w.msgs = append(w.msgs, m); return nil }
func (w *vC14Writer) Write(b []byte) (int, error) { return len(b), nil }
func (w *vC14Writer) Close() error              { return nil }
func (w *vC14Writer) TsigStatus() error         { return nil }
func (w *vC14Writer) TsigTimersOnly(bool)       {}
func (w *vC14Writer) Hijack()                   {}

func vC14Letter(n string) byte {
	c := vU8(n)
	vAssume(c == 'a' || c == 'b' || c == 'A' || c == 'B')
	return c
}

func vC14Name(n string, nl int) [][]byte {
	var ls [][]byte
	for i := 0; i < nl; i++ {
		ls = append(ls, []byte{vC14Letter(n + vItoa(i))})
	}
	// the leftmost label may be one that needs escaping in presentation form: ending in a backslash, containing a
	// dot, or a backslash followed by a dot
	// (C14.special=3: only the question name; 1: also the first pattern; 2: every name)
	sp := vParam("C14.special", 1)
	if nl > 0 && (sp == 2 || (sp == 1 && (n == "q" || n == "p0_")) || (sp == 3 && n == "q")) {
		switch vChoice(n+"special", 4) {
		case 1:
			ls[0] = append(ls[0], '\\')
		case 2:
			ls[0] = append(ls[0], '.', 'a')
		case 3:
			ls[0] = append(ls[0], '\\', '.')
		}
	}
	return ls
}

func refIsSuffixFold(suffix, name [][]byte) bool {
	if len(suffix) > len(name) {
		return false
	}
	off := len(name) - len(suffix)
	for i := range suffix {
		if !refLabelEqualFold(suffix[i], name[off+i]) {
			return false
		}
	}
	return true
}

// H_C14_routing: dispatch to the handler of the longest registered suffix of the question name (label boundaries,
// case ignored); DS goes to a registered proper ancestor if there is one; root is the last resort; else REFUSED.
func H_C14_routing() {
	mux := NewServeMux()
	q := vC14Name("q", 1+vChoice("qlabels", 3))
	shapes := [][]int{{2}, {1, 2}, {2, 3}, {1, 3}, {1, 2, 3}, {}}
	shape := shapes[vChoice("patterns", vParam("C14.patterns", len(shapes)))]
	var pats [][][]byte
	for i, nl := range shape {
		pats = append(pats, vC14Name("p"+vItoa(i)+"_", nl))
	}
	if vChoice("root", 2) == 1 {
		pats = append(pats, [][]byte{})
	}
	called := -1
	for i, p := range pats {
		i := i
		text := refPresentName(p)
		if vChoice("nofq"+vItoa(i), 2) == 1 && len(p) > 0 {
			text = text[:len(text)-1] // patterns may be given without the trailing dot
		}
		mux.HandleFunc(text, func(w ResponseWriter, r *Msg) { called = i })
	}
	qtext := refPresentName(q)
	// the question name itself registered and removed again (spelled in the other case, without the final dot):
	// it must not match any more, and neither does an earlier registration of the same name
	removed := vChoice("removed", 2) == 1
	if removed {
		mux.HandleFunc(qtext, func(w ResponseWriter, r *Msg) { called = 99 })
		sw := []byte(qtext[:len(qtext)-1])
		for i, c := range sw {
			if c >= 'a' && c <= 'z' {
				sw[i] = c - 32
			} else if c >= 'A' && c <= 'Z' {
				sw[i] = c + 32
			}
		}
		mux.HandleRemove(string(sw))
		for i, p := range pats {
			if len(p) == len(q) && refIsSuffixFold(p, q) {
				pats[i] = [][]byte{{'-'}, {'-'}, {'-'}, {'-'}} // no longer registered: can never be a suffix of q
			}
		}
	}
	qtype := TypeA
	if vChoice("ds", 2) == 1 {
		qtype = TypeDS
	}
	req := new(Msg)
	req.Id = vU16("id")
	req.Opcode = int(vU8("opcode") & 0xF)
	req.RecursionDesired, req.CheckingDisabled = vBool("rd"), vBool("cd")
	req.Question = []Question{{Name: qtext, Qtype: qtype, Qclass: ClassINET}}
	w := &vC14Writer{}
	vReach("dispatched")
	mux.ServeDNS(w, req)
	// reference: indices of patterns that are suffixes of q, by length (a later registration of an equal name
	// replaces the earlier one)
	best, bestLen := -1, -1
	for i, p := range pats {
		if refIsSuffixFold(p, q) && len(p) >= bestLen {
			best, bestLen = i, len(p)
		}
	}
	vObserve("route", called, best, len(w.msgs))
	if best < 0 {
		vAssert(called == -1, "no-handler-when-nothing-matches")
		vAssert(len(w.msgs) == 1, "refused-reply-when-nothing-matches")
		if len(w.msgs) == 1 {
			r := w.msgs[0]
			vAssert(r.Rcode == RcodeRefused && r.Id == req.Id && r.Response && r.Opcode == req.Opcode, "refused-reply-echoes-id-qr-opcode")
			if req.Opcode == OpcodeQuery {
				vAssert(r.RecursionDesired == req.RecursionDesired && r.CheckingDisabled == req.CheckingDisabled, "refused-reply-echoes-rd-cd-of-a-query")
			}
			vAssert(len(r.Question) == 1 && r.Question[0] == req.Question[0], "refused-reply-echoes-first-question")
			vAssert(len(r.Answer) == 0 && len(r.Ns) == 0 && len(r.Extra) == 0, "refused-reply-has-no-records")
		}
		return
	}
	vAssert(len(w.msgs) == 0, "no-library-reply-when-a-handler-matches")
	vAssert(called >= 0 && called != 99, "a-registered-handler-is-called")
	if called < 0 || called == 99 {
		return
	}
	// the called pattern must be a suffix of q and the last registration of its name
	cp := pats[called]
	vAssert(refIsSuffixFold(cp, q), "called-pattern-is-a-suffix-of-the-question-name")
	for i, p := range pats {
		if i > called && len(p) == len(cp) && refIsSuffixFold(p, cp) {
			vAssert(false, "later-registration-of-the-same-name-wins")
		}
	}
	if qtype != TypeDS {
		vAssert(len(cp) == bestLen, "longest-registered-suffix-wins")
		return
	}
	// DS: if a proper ancestor of the longest match is registered, one of those is called; else the longest match
	hasAncestor := false
	for _, p := range pats {
		if len(p) < bestLen && refIsSuffixFold(p, q) {
			hasAncestor = true
		}
	}
	if hasAncestor {
		vAssert(len(cp) < bestLen, "ds-goes-to-a-registered-ancestor-of-the-zone")
	} else {
		vAssert(len(cp) == bestLen, "ds-stays-with-the-zone-when-no-ancestor-is-registered")
	}
}

func H_C14_vacuity() {
	m := vC14Packet()
	vAssert(len(m) < 12, "vacuity-twin")
}
