package dns

// Crypto seam of the harness runtime: fixed test keys (keys are not the subject of any property), a
// crypto.Signer for them, and reference sign/verify over reference octets.
//
// Under the engine vSignDigest / vSignWire / vVerifyWire are intercepted: a signature is an ideal,
// deterministic, unforgeable function of (scheme, canonical public key, digest). Natively they run
// the real crypto/* primitive with the real private key, so a counterexample of the form "Verify rejects
// a signature made over the reference octets" replays against the real build.

import (
	"crypto"
	"crypto/ecdsa"
	"crypto/ed25519"
	"crypto/elliptic"
	"crypto/rand"
	"crypto/rsa"
	"encoding/asn1"
	"encoding/base64"
	"io"
	"math/big"
	"strings"
)

var vTestPub = map[uint8]string{
	5: "AwEAAbzR7SQNVDqOUVFfeCCi/8BwZKf9ceF09l4T6auI4F0rTFh41z1S1RjmNH2gOPm27WFziFMZTP9llr6A7ZbaCliPsqXaql+bDPGK8qlZobMCwnl/18uYq3EvqxvPiUr4eQLWWIW3iQkolPrbpQx+WW6JiF41ja/+AQdXg8k7XfDl",
	8: "AwEAAdbfQ+mo7ZZqnYiiSGR2emmZKvyse7DaCipdvgDsF05q4/eXzsNqTH9p/MUi/2H5mo0OrK0+V16BxHPXlHymCKfGiKszRJRRNgfrWvSfskBmj5pP3dqug/Omfyok0GHiavnoduqufT4BLRhgeAJiSKUxzIWs95C9CiMnRLZcOF7N",
	10: "AwEAAfNj+cygsaeqB8AwReovimmUHi95uwHtN0J1mkRNO4tsSzanqF4XOJ0PpSUIpbns/JXyStgS8+hBMN0/q5StFwFq+CH0oMQdgvxX9UkPSyFSq0hWwxH+TiQ7Ur/CuYXSwrcg/Mrir+rei9XKX6XUTuQQaUKWfG7Tcq7FM7qlmQ5n",
	13: "vMmDhIBhDP4BBQT6uWA5ZHKQYft04v3K2Z3NVxDULo/hYWo3wGef3ndU0+b+WbzscfHamo/H5WTSzyfbe3VB+A==",
	14: "/sJbYxUuxTJNp0Et51EPag4MOLNQ+A5eqo37CdtAItlV+OvuaR97cXN8yV3NNIUiuWJecfMOXsKBDWQObKUz0MwSTAqnBD35906LiQ2deafHOiR1EjECeVgq6IQkLnq0",
	15: "hGAWya/HXuZzQvkKH4svqrM4we4ILLqbCFJDiZr5l44=",
}

var vTestPriv = map[uint8]string{
	5: "Private-key-format: v1.3\nAlgorithm: 5 (RSASHA1)\nModulus: vNHtJA1UOo5RUV94IKL/wHBkp/1x4XT2XhPpq4jgXStMWHjXPVLVGOY0faA4+bbtYXOIUxlM/2WWvoDtltoKWI+ypdqqX5sM8YryqVmhswLCeX/Xy5ircS+rG8+JSvh5AtZYhbeJCSiU+tulDH5ZbomIXjWNr/4BB1eDyTtd8OU=\nPublicExponent: AQAB\nPrivateExponent: I3pmTnHas63uBZYkoi0+VNBJeW8bqLsrV33yV/K+BYOPMshx2OnpdGY80qX6TqFadQcaRFLqrspNyrm66q9JZguw/f6oM56Gvt7PLlhpSOzqrnDgQyPwpODKoyb1DUXoXyIKVvGjV9+2tg2Y6gXSoknwPOP67RMlN5JtB9kQdsE=\nPrime1: zC0eSHnx44cGU+QSmMh6Aeo+W7AtbIHk48R5Gr6zgzxTUkCW1nqagEZjkj+zQYHqyNVbkRNHg+D6xT4b017VSQ==\nPrime2: 7L7/cyA1B63jcviHNhut4HaI0cXTDnAhs1Ez8vKAnH6mPEGoXLSXQgLhijJsLqZdx4x9wKF4W87qBuNL5viqvQ==\nExponent1: wKYttbsCJmpH6S4A8hHvNRFdp0uzgHeLjfHbRwX7AXAROkHhURw73Z8M4niiXcQE0VynWlqzltbYJvX0cVtAqQ==\nExponent2: HpjYvvJMqD9rA/Lm1rFhGX94U1Qz4MvRLzGxexaoVJFxvpvlvIWCfv+MUqYNoUHTIPUhU4IK4iKt0FIT/zfoKQ==\nCoefficient: MoMbcy2sS8mglgv95VAvdGzfjB9zWOz0ytNYTMZpite6PEaVMz5Ji8fQQ/TqnReIY0YC5RdgeJcjx157jE41Sg==\n",
	8: "Private-key-format: v1.3\nAlgorithm: 8 (RSASHA256)\nModulus: 1t9D6ajtlmqdiKJIZHZ6aZkq/Kx7sNoKKl2+AOwXTmrj95fOw2pMf2n8xSL/YfmajQ6srT5XXoHEc9eUfKYIp8aIqzNElFE2B+ta9J+yQGaPmk/d2q6D86Z/KiTQYeJq+eh26q59PgEtGGB4AmJIpTHMhaz3kL0KIydEtlw4Xs0=\nPublicExponent: AQAB\nPrivateExponent: BPE1TnsmA9V6v1LKpKzo9RbVznwB8es1KQy0IX2zFFWqREUH0QzX3f8ur8yCeg46SAMamHccavF3KebyfmKsEXNwQJMn1rbRx+sRy01jQjNJwM15CyhJ9OYKUzhPQPGhYWeyieqiMbbx7hU/8J1yLtznV8yMg4a5+yWRsUVdEwE=\nPrime1: 3wpWlN1SCkHmX/Dex8IGpEGacH1FnldTuRfBQjH4yCkBYKxQjexAEGeNoKrzgtW1GqjxqhMxo8KK9X/VEijWjQ==\nPrime2: 9p/roRWX5R23OSFV3z9m3+WSxSXZr30GGM7kpo4HrKm67/CkL4946Cu0zWIoJVEfmAENL4ECQ3JptCgwa4a5QQ==\nExponent1: 1hmYbyHcpNgJisMvN1W7BmWrGJxH/e0aAy0YaLCLfahPGDuQwAuum5Cr1TUEt+zpAgR2pqnyFp6iwXLKV7o36Q==\nExponent2: wEBJ3niGwAQ6ID7sQeuatk6v6x9mYnaDmjMt6ugs81wcbY6ZbrnY9qObfb9WrEBg8I1hSfa3XPyDif0KQcf0AQ==\nCoefficient: R7t271XGtvvSJpo4kq6qoHYws5wZ/1VedSezOwQWfRl72GplRz8ZTFta3QvjW9Hp2ojqXvcNEungYolbGlkkLQ==\n",
	10: "Private-key-format: v1.3\nAlgorithm: 10 (RSASHA512)\nModulus: 82P5zKCxp6oHwDBF6i+KaZQeL3m7Ae03QnWaRE07i2xLNqeoXhc4nQ+lJQiluez8lfJK2BLz6EEw3T+rlK0XAWr4IfSgxB2C/Ff1SQ9LIVKrSFbDEf5OJDtSv8K5hdLCtyD8yuKv6t6L1cpfpdRO5BBpQpZ8btNyrsUzuqWZDmc=\nPublicExponent: AQAB\nPrivateExponent: P1xmelvXA+PisqieetG3gba6iPdytJSxjw6Yg3Frr+cYSXkp/pyi81hQUKzIn/dO5iY2T7vXXT4jX2Wk4EaTNxxPwoS0rD4cXQnPHi6e9Espa+HEHgJs/DILVLqy8Ps7VQSgtCcznrjI09PIlosP8i+2GxOK76pZ0exN9wLVv5k=\nPrime1: +c3zRoFIJLvfcRu+YZ0E4zkihHcMC9rWXmQqzwn1tzuZdeWQpRIrp9LMWva3IJM3QM/g05OUxLePHKkgygUv8w==\nPrime2: +W1NW74l0QFnrxqae4vi0ICcpKMGhiyub0SEzlu8ISo7NrddLHgKYfV7lXx+eFYHDlh5OCxe/1QcQBfpxvq4vQ==\nExponent1: Z0rErEOq7B2PP/rj1wMRUU9/uVxsa756Y59xoBiTNMf9JaXeEJOZ35QnkflwMZUOBMuwQGxG2Ky6DXTVrRNGBw==\nExponent2: PL7y/Sn1Gc7myo2HHBm4dqEsBSizGRBetziPw5Yx3j3jx/KmXYMqvCrGG2UDhBknhMXlV9nulO6OJsnsJIrBXQ==\nCoefficient: qdBld26b7nyxnhCITGfgAriR71udXN7C8FHTV/PNh6trX5urNUZd8oSEThCSrKLVS/s+uOfVKbsonSMBDU172Q==\n",
	13: "Private-key-format: v1.3\nAlgorithm: 13 (ECDSAP256SHA256)\nPrivateKey: ClnYmoOGsSs07KznPDYaPZ5UVj3h+HfdDq+ckp7nYoI=\n",
	14: "Private-key-format: v1.3\nAlgorithm: 14 (ECDSAP384SHA384)\nPrivateKey: 2TRi8foDjkVKBzX9Hqm9MjLwKyyqHz5TrsNZMEoRVQ+7OSVXk4oaQWuE9isl0qiP\n",
	15: "Private-key-format: v1.3\nAlgorithm: 15 (ED25519)\nPrivateKey: MDhfpcV9Cc0FegzUnSx2VJlEHViIZAto3v6IuXM9D+U=\n",
}

func vKeyAlg(alg uint8) uint8 {
	if alg == RSASHA1NSEC3SHA1 {
		return RSASHA1
	}
	return alg
}

// vPubBase64 is the DNSKEY/KEY public key field of the test key for alg.
func vPubBase64(alg uint8) string { return vTestPub[vKeyAlg(alg)] }

func vPubOctets(alg uint8) []byte {
	b, err := base64.StdEncoding.DecodeString(vPubBase64(alg))
	if err != nil {
		panic("bad test key")
	}
	return b
}

// vKeyCanon: canonical identity of the public key (RSA: E as 4 octets || N per RFC 3110; else the octets).
func vKeyCanon(alg uint8) []byte {
	b := vPubOctets(alg)
	switch vKeyAlg(alg) {
	case RSASHA1, RSASHA256, RSASHA512:
		return refRSACanon(b)
	}
	return b
}

// refRSACanon decodes RFC 3110 section 2: exponent length (1 or 3 octets), exponent, modulus.
func refRSACanon(b []byte) []byte {
	el, off := int(b[0]), 1
	if el == 0 {
		el, off = int(b[1])<<8|int(b[2]), 3
	}
	e := b[off : off+el]
	out := make([]byte, 4)
	copy(out[4-len(e):], e)
	return append(out, b[off+el:]...)
}

func refHashID(alg uint8) (crypto.Hash, string) {
	switch alg {
	case RSASHA1, RSASHA1NSEC3SHA1:
		return crypto.SHA1, "sha1"
	case RSASHA256, ECDSAP256SHA256:
		return crypto.SHA256, "sha256"
	case ECDSAP384SHA384:
		return crypto.SHA384, "sha384"
	case RSASHA512:
		return crypto.SHA512, "sha512"
	}
	return 0, ""
}

// refDigest: what is handed to the signature primitive for alg (Ed25519 signs the message itself).
func refDigest(alg uint8, data []byte) []byte {
	_, name := refHashID(alg)
	if name == "" {
		return append([]byte{}, data...)
	}
	return vHash(name, data)
}

// vSignRef signs reference octets: DNSSEC wire-format signature under the test key of alg.
func vSignRef(alg uint8, data []byte) []byte {
	h, _ := refHashID(alg)
	return vSignWire(alg, uint8(h), vKeyCanon(alg), refDigest(alg, data))
}

// vVerifyRef: is sig a valid wire-format signature of the reference octets under the test key of alg?
func vVerifyRef(alg uint8, data, sig []byte) bool {
	h, _ := refHashID(alg)
	return vVerifyWire(alg, uint8(h), vKeyCanon(alg), refDigest(alg, data), sig)
}

// vSigner is the crypto.Signer of the test key for alg.
type vSigner struct{ alg uint8 }

func (s vSigner) Public() crypto.PublicKey { return nil }
func (s vSigner) Sign(_ io.Reader, digest []byte, opts crypto.SignerOpts) ([]byte, error) {
	return vSignDigest(s.alg, uint8(opts.HashFunc()), vKeyCanon(s.alg), digest), nil
}

var vSigAlgs = []uint8{RSASHA1, RSASHA256, RSASHA512, ECDSAP256SHA256, ECDSAP384SHA384, ED25519}

// vTestDNSKEY: zone key record of the test key.
func vTestDNSKEY(owner string, alg uint8) *DNSKEY {
	return &DNSKEY{Hdr: RR_Header{Name: owner, Rrtype: TypeDNSKEY, Class: ClassINET, Ttl: 3600}, Flags: 256, Protocol: 3, Algorithm: alg, PublicKey: vPubBase64(alg)}
}

// ---------- native bodies (never executed by the engine) ----------

func vPrivFields(alg uint8) map[string][]byte {
	m := map[string][]byte{}
	for _, line := range strings.Split(vTestPriv[vKeyAlg(alg)], "\n") {
		kv := strings.SplitN(line, ": ", 2)
		if len(kv) != 2 {
			continue
		}
		if b, err := base64.StdEncoding.DecodeString(kv[1]); err == nil {
			m[kv[0]] = b
		}
	}
	return m
}

func vNativeKey(alg uint8) crypto.Signer {
	f := vPrivFields(alg)
	bi := func(n string) *big.Int { return new(big.Int).SetBytes(f[n]) }
	switch vKeyAlg(alg) {
	case RSASHA1, RSASHA256, RSASHA512:
		p := &rsa.PrivateKey{PublicKey: rsa.PublicKey{N: bi("Modulus"), E: int(bi("PublicExponent").Int64())}, D: bi("PrivateExponent"), Primes: []*big.Int{bi("Prime1"), bi("Prime2")}}
		p.Precompute()
		return p
	case ECDSAP256SHA256, ECDSAP384SHA384:
		c := elliptic.P256()
		if alg == ECDSAP384SHA384 {
			c = elliptic.P384()
		}
		p, err := ecdsa.ParseRawPrivateKey(c, f["PrivateKey"])
		if err != nil {
			panic(err)
		}
		return p
	case ED25519:
		return ed25519.NewKeyFromSeed(f["PrivateKey"])
	}
	panic("no test key for algorithm")
}

func vSignDigest(alg, hashID uint8, pub, digest []byte) []byte {
	sig, err := vNativeKey(alg).Sign(rand.Reader, digest, crypto.Hash(hashID))
	if err != nil {
		panic(err)
	}
	return sig
}

func vSignWire(alg, hashID uint8, pub, digest []byte) []byte {
	sig := vSignDigest(alg, hashID, pub, digest)
	if alg == ECDSAP256SHA256 || alg == ECDSAP384SHA384 {
		n := 32
		if alg == ECDSAP384SHA384 {
			n = 48
		}
		var rs struct{ R, S *big.Int }
		if _, err := asn1.Unmarshal(sig, &rs); err != nil {
			panic(err)
		}
		out := make([]byte, 2*n)
		rs.R.FillBytes(out[:n])
		rs.S.FillBytes(out[n:])
		return out
	}
	return sig
}

func vVerifyWire(alg, hashID uint8, pub, digest, sig []byte) bool {
	switch k := vNativeKey(alg).(type) {
	case *rsa.PrivateKey:
		return rsa.VerifyPKCS1v15(&k.PublicKey, crypto.Hash(hashID), digest, sig) == nil
	case *ecdsa.PrivateKey:
		if len(sig)%2 != 0 || len(sig) == 0 {
			return false
		}
		r := new(big.Int).SetBytes(sig[:len(sig)/2])
		s := new(big.Int).SetBytes(sig[len(sig)/2:])
		return ecdsa.Verify(&k.PublicKey, digest, r, s)
	case ed25519.PrivateKey:
		return ed25519.Verify(k.Public().(ed25519.PublicKey), digest, sig)
	}
	return false
}

// refUnbase64: RFC 4648 section 4 decoder (padding required, no white space).
func refUnbase64(s string) ([]byte, bool) {
	if b, ok := vBase64Source(s); ok {
		return b, true
	}
	if len(s)%4 != 0 {
		return nil, false
	}
	val := func(c byte) (byte, bool) {
		switch {
		case c >= 'A' && c <= 'Z':
			return c - 'A', true
		case c >= 'a' && c <= 'z':
			return c - 'a' + 26, true
		case c >= '0' && c <= '9':
			return c - '0' + 52, true
		case c == '+':
			return 62, true
		case c == '/':
			return 63, true
		}
		return 0, false
	}
	var out []byte
	for i := 0; i < len(s); i += 4 {
		pad := 0
		var v [4]byte
		for j := 0; j < 4; j++ {
			c := s[i+j]
			if c == '=' {
				if i+4 != len(s) || j < 2 {
					return nil, false
				}
				pad++
				continue
			}
			if pad > 0 {
				return nil, false
			}
			x, ok := val(c)
			if !ok {
				return nil, false
			}
			v[j] = x
		}
		out = append(out, v[0]<<2|v[1]>>4)
		if pad < 2 {
			out = append(out, v[1]<<4|v[2]>>2)
		}
		if pad < 1 {
			out = append(out, v[2]<<6|v[3])
		}
	}
	return out, true
}
