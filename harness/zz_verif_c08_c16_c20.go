package dns

func init() {
	vRegister("H_C08_record", H_C08_record)
	vRegister("H_C08_msg", H_C08_msg)
	vRegister("H_C08_window", H_C08_window)
	vRegister("H_C08_opt", H_C08_opt)
	vRegister("H_C08_vacuity", H_C08_vacuity)
	vRegister("H_C16_copy_record", H_C16_copy_record)
	vRegister("H_C16_copy_opt", H_C16_copy_opt)
	vRegister("H_C16_copy_emptycap", H_C16_copy_emptycap)
	vRegister("H_C16_unpack_alias", H_C16_unpack_alias)
	vRegister("H_C16_readonly", H_C16_readonly)
	vRegister("H_C16_vacuity", H_C16_vacuity)
	vRegister("H_C20_record", H_C20_record)
	vRegister("H_C20_apl", H_C20_apl)
	vRegister("H_C20_opt", H_C20_opt)
	vRegister("H_C20_dedup", H_C20_dedup)
	vRegister("H_C20_vacuity", H_C20_vacuity)
}

// types for which C08 promises exactness when no escape is needed
var vExactTypes = map[uint16]bool{TypeA: true, TypeAAAA: true, TypeNS: true, TypeCNAME: true, TypeSOA: true, TypePTR: true, TypeMX: true,
	TypeSRV: true, TypeTXT: true, TypeDNAME: true, TypeMINFO: true, TypeRP: true, TypeAFSDB: true, TypeKX: true, TypeNAPTR: true, TypeHINFO: true}

// H_C08_record: Len(rr) never under-estimates the packed size; exact for escape-free common types;
// a single-record message packs without running out of buffer.
func H_C08_record() {
	t := vPickType()
	rr, w, g := vBuildRR("r.", t)
	if rr == nil {
		return
	}
	n := Len(rr)
	vReach("built")
	vObserve("len", t, n, len(w))
	vAssert(n >= len(w), "len-not-underestimated")
	if vExactTypes[t] && !g.esc {
		vAssert(n == len(w), "len-exact-for-plain-common-types")
	}
	m := new(Msg)
	m.Answer = []RR{rr}
	b, err := m.Pack()
	vAssert(err == nil, "msg-pack-has-room")
	if err == nil {
		vAssert(len(b) == 12+len(w) && refBytesEqual(b[12:], w), "msg-pack-is-header-plus-record")
		vAssert(m.Len() >= len(b), "msglen-not-underestimated")
		if vExactTypes[t] && !g.esc {
			vAssert(m.Len() == len(b), "msglen-exact-for-plain-common-types")
		}
	}
}

func H_C08_opt() {
	opt, w, _ := vBuildOPT("o.")
	n := Len(opt)
	vAssert(n >= len(w), "len-not-underestimated")
	m := new(Msg)
	m.Extra = []RR{opt}
	// keep the extended rcode bits of the drawn TTL consistent with the header rcode
	m.Rcode = int(opt.Hdr.Ttl>>24)<<4 | int(vU8("rc")&0xF)
	b, err := m.Pack()
	vAssert(err == nil, "msg-pack-has-room")
	if err == nil {
		vAssert(m.Len() >= len(b), "msglen-not-underestimated")
	}
}

// vNameFamily: names drawn from a small family sharing suffixes; letters symbolic (upper/lower case possible).
func vNameFamily(pfx string, idx int) string {
	a := vU8(pfx + "a")
	b := vU8(pfx + "b")
	vAssume(a >= 'a' && a <= 'z' && (b >= 'a' && b <= 'z' || b >= 'A' && b <= 'Z'))
	switch idx {
	case 0:
		return string([]byte{a, '.', b, '.'})
	case 1:
		return string([]byte{'w', '.', a, '.', b, '.'})
	case 2:
		return string([]byte{b, '.'})
	case 3:
		return "."
	default:
		return string([]byte{a, a, '.', 'x', '.'})
	}
}

// H_C08_msg: message level, with shared names and a symbolic Compress flag.
// H_C08_window: the per-type length prediction around the 16384-octet compression limit. A leading opaque record
// moves a record of every type that carries names in its RDATA across offset 16384 (in steps, so that each of its
// names falls on either side), and a following NS record is owned by that RDATA name and points below it: Len must
// not count a pointer to an offset the packer may not use.
func H_C08_window() {
	t := vPickType()
	c := vU8("c")
	vAssume(c >= 'a' && c <= 'z')
	lab := [][]byte{{c, 'b'}, {'e', 'x'}}
	rr, _, g := vBuildRRWith("r.", t, func(g *vGen) {
		g.owner = [][]byte{{'o'}}
		g.fixedLabels = lab
	})
	if rr == nil || len(g.nameOffs) == 0 {
		return // no names in RDATA: nothing to register
	}
	rr.Header().Class = ClassINET
	// record 2 starts at 12 + 11 + pad; its RDATA starts 13 octets later
	firstName := 12 + 11 + 13 + g.nameOffs[0]
	lastName := 12 + 11 + 13 + g.nameOffs[len(g.nameOffs)-1]
	span := lastName - firstName + 12
	pad := 16384 - lastName - 8 + 3*vChoice("pad", span/3+2)
	m := new(Msg)
	m.Compress = true
	fill := make([]byte, pad)
	for i := range fill {
		fill[i] = 'a'
	}
	m.Answer = append(m.Answer, &NULL{Hdr: RR_Header{Name: ".", Rrtype: TypeNULL, Class: ClassINET}, Data: string(fill)})
	m.Answer = append(m.Answer, rr)
	n := string([]byte{c, 'b', '.', 'e', 'x', '.'})
	m.Answer = append(m.Answer, &NS{Hdr: RR_Header{Name: n, Rrtype: TypeNS, Class: ClassINET}, Ns: "x." + n})
	vReach("window-built")
	want := m.Len()
	b, err := m.Pack()
	vObserve("window", t, pad, want, err, len(b))
	vAssert(err == nil, "pack-has-room")
	if err != nil {
		return
	}
	vAssert(want >= len(b), "msglen-not-underestimated")
}

func H_C08_msg() {
	m := new(Msg)
	m.Compress = vChoice("compress", 2) == 1
	q := vNameFamily("n.", vChoice("q", 5))
	m.Question = []Question{{Name: q, Qtype: TypeMX, Qclass: ClassINET}}
	n1 := vNameFamily("n.", vChoice("o1", 5))
	n2 := vNameFamily("n.", vChoice("t1", 5))
	switch vChoice("k1", 4) {
	case 0:
		m.Answer = append(m.Answer, &MX{Hdr: RR_Header{Name: n1, Rrtype: TypeMX, Class: ClassINET, Ttl: vU32("ttl")}, Preference: vU16("p"), Mx: n2})
	case 1:
		m.Answer = append(m.Answer, &SRV{Hdr: RR_Header{Name: n1, Rrtype: TypeSRV, Class: ClassINET}, Target: n2})
	case 2:
		m.Answer = append(m.Answer, &SOA{Hdr: RR_Header{Name: n1, Rrtype: TypeSOA, Class: ClassINET}, Ns: n2, Mbox: q})
	default:
		m.Answer = append(m.Answer, &TXT{Hdr: RR_Header{Name: n1, Rrtype: TypeTXT, Class: ClassINET}, Txt: []string{"ab", ""}})
	}
	m.Ns = append(m.Ns, &NS{Hdr: RR_Header{Name: n2, Rrtype: TypeNS, Class: ClassINET}, Ns: n1})
	vReach("msg-built")
	want := m.Len()
	b, err := m.Pack()
	vObserve("msg", want, err, b)
	vAssert(err == nil, "pack-has-room")
	if err != nil {
		return
	}
	vAssert(want >= len(b), "msglen-not-underestimated")
	vAssert(want == len(b), "msglen-exact-for-plain-common-types")
	// PackBuffer writes into the caller's buffer when it is larger than the uncompressed length
	mu := m.Copy()
	mu.Compress = false
	ulen := mu.Len()
	buf := make([]byte, ulen+1)
	out, perr := m.PackBuffer(buf)
	vAssert(perr == nil, "packbuffer-has-room")
	if perr == nil && len(out) > 0 {
		vAssert(&out[0] == &buf[0], "packbuffer-uses-callers-buffer")
		vAssert(refBytesEqual(out, b), "packbuffer-same-octets")
	}
}

func H_C08_vacuity() {
	rr, w, _ := vBuildRR("r.", TypeMX)
	vAssert(Len(rr) != len(w), "vacuity-must-fail")
}

// ---------- C16 ----------

// H_C16_copy_record: Copy(rr) is deep (shares no mutable memory), equal in value, and leaves rr unchanged.
func H_C16_copy_record() {
	t := vPickType()
	rr, _, _ := vBuildRR("r.", t)
	if rr == nil {
		return
	}
	snap := vSnapshot(rr)
	c := Copy(rr)
	vReach("copied")
	vAssert(!vAliased(rr, c), "copy-shares-no-memory")
	vAssert(vDeepEqual(rr, c), "copy-equal-in-value")
	vAssert(vSame(rr, snap), "copy-leaves-original-unchanged")
}

// H_C16_copy_emptycap: records whose slices are empty but have spare capacity (as left by append/reslice): the copy
// must not share that capacity either - an append on one side would show through on the other.
func H_C16_copy_emptycap() {
	var rr RR
	switch vChoice("shape", 7) {
	case 0:
		rr = &TXT{Hdr: RR_Header{Name: "t.", Rrtype: TypeTXT, Class: ClassINET}, Txt: make([]string, 0, 4)}
	case 1:
		rr = &NSEC{Hdr: RR_Header{Name: "n.", Rrtype: TypeNSEC, Class: ClassINET}, NextDomain: "o.", TypeBitMap: make([]uint16, 0, 4)}
	case 2:
		rr = &OPT{Hdr: RR_Header{Name: ".", Rrtype: TypeOPT}, Option: []EDNS0{&EDNS0_PADDING{Padding: make([]byte, 0, 8)}}}
	case 3:
		rr = &OPT{Hdr: RR_Header{Name: ".", Rrtype: TypeOPT}, Option: []EDNS0{&EDNS0_DAU{Code: EDNS0DAU, AlgCode: make([]uint8, 0, 8)}, &EDNS0_LOCAL{Code: EDNS0LOCALSTART, Data: make([]byte, 0, 8)}}}
	case 4:
		rr = &OPT{Hdr: RR_Header{Name: ".", Rrtype: TypeOPT}, Option: make([]EDNS0, 0, 4)}
	case 5:
		rr = &SVCB{Hdr: RR_Header{Name: "s.", Rrtype: TypeSVCB, Class: ClassINET}, Target: ".", Value: []SVCBKeyValue{&SVCBAlpn{Alpn: make([]string, 0, 4)}, &SVCBECHConfig{ECH: make([]byte, 0, 8)}}}
	default:
		rr = &HIP{Hdr: RR_Header{Name: "h.", Rrtype: TypeHIP, Class: ClassINET}, RendezvousServers: make([]string, 0, 4)}
	}
	c := Copy(rr)
	vReach("copied")
	vAssert(!vAliased(rr, c), "copy-shares-no-memory")
	m := new(Msg)
	m.Extra = append(make([]RR, 0, 4), rr)
	m.Answer = make([]RR, 0, 4)
	m2 := m.Copy()
	vAssert(!vAliased(m, m2), "message-copy-shares-no-memory")
}

func H_C16_copy_opt() {
	opt, _, _ := vBuildOPT("o.")
	snap := vSnapshot(opt)
	c := Copy(opt)
	vReach("copied")
	vAssertExcept(!vAliased(opt, c), "copy-shares-no-memory", vOptHasSharedSlice(opt), "C16-opt-copy-alias")
	vAssert(vSame(opt, snap), "copy-leaves-original-unchanged")
	m := new(Msg)
	m.Extra = []RR{opt}
	m2 := m.Copy()
	vAssertExcept(!vAliased(m, m2), "msgcopy-shares-no-memory", vOptHasSharedSlice(opt), "C16-opt-copy-alias")
}

// region of the known finding: an option of kind SUBNET/DAU/DHU/N3U with a non-empty slice
func vOptHasSharedSlice(opt *OPT) bool {
	for _, e := range opt.Option {
		switch x := e.(type) {
		case *EDNS0_SUBNET:
			if len(x.Address) > 0 {
				return true
			}
		case *EDNS0_DAU:
			if len(x.AlgCode) > 0 {
				return true
			}
		case *EDNS0_DHU:
			if len(x.AlgCode) > 0 {
				return true
			}
		case *EDNS0_N3U:
			if len(x.AlgCode) > 0 {
				return true
			}
		}
	}
	return false
}

// H_C16_unpack_alias: a decoded record shares no memory with the input buffer.
func H_C16_unpack_alias() {
	var w []byte
	if vChoice("kind", 2) == 0 {
		t := vPickType()
		rr, ww, _ := vBuildRR("r.", t)
		if rr == nil {
			return
		}
		w = ww
	} else {
		_, w, _ = vBuildOPT("o.")
	}
	buf := append([]byte(nil), w...)
	rr2, _, err := UnpackRR(buf, 0)
	vAssume(err == nil)
	vReach("unpacked")
	vAssert(!vAliased(rr2, buf), "decoded-record-shares-no-memory-with-buffer")
	m := new(Msg)
	msg := append([]byte{0, 1, 0, 0, 0, 0, 0, 1, 0, 0, 0, 0}, w...)
	if m.Unpack(msg) == nil {
		vAssert(!vAliased(m, msg), "decoded-message-shares-no-memory-with-buffer")
	}
}

// H_C16_readonly: Pack, Len, String, IsDuplicate, Copy leave their arguments unchanged
// (apart from Rdlength bookkeeping, which the snapshot excludes by fixing it first).
func H_C16_readonly() {
	var rr RR
	if vChoice("kind", 2) == 0 {
		t := vPickType()
		rr, _, _ = vBuildRR("r.", t)
		if rr == nil {
			return
		}
	} else {
		o, _, _ := vBuildOPT("o.")
		rr = o
	}
	buf := make([]byte, Len(rr)+8)
	_, err := PackRR(rr, buf, 0, nil, false) // sets Rdlength (documented bookkeeping)
	vAssume(err == nil)
	snap := vSnapshot(rr)
	other := Copy(rr)
	PackRR(rr, buf, 0, nil, false)
	vAssert(vSame(rr, snap), "pack-leaves-record-unchanged")
	_ = Len(rr)
	vAssert(vSame(rr, snap), "len-leaves-record-unchanged")
	IsDuplicate(rr, other)
	vAssert(vSame(rr, snap), "isduplicate-leaves-record-unchanged")
	m := new(Msg)
	m.Answer = []RR{rr}
	m.Compress = vChoice("compress", 2) == 1
	_, _ = m.Pack()
	_ = m.Len()
	_ = m.Copy()
	vAssert(vSame(rr, snap), "msg-ops-leave-record-unchanged")
	vReach("readonly-done")
}

func H_C16_vacuity() {
	rr, _, _ := vBuildRR("r.", TypeTXT)
	vAssert(vAliased(rr, Copy(rr)), "vacuity-must-fail")
}

// ---------- C20 ----------

// H_C20_record: a record is a duplicate of its copy and of the record decoded from its wire form;
// TTL and owner-name case are ignored; records with different canonical wire forms are not duplicates.
func H_C20_record() {
	t := vPickType()
	rr, w, g := vBuildRR("r.", t)
	if rr == nil {
		return
	}
	c := Copy(rr)
	vReach("built")
	vAssert(IsDuplicate(rr, c), "copy-is-duplicate")
	vAssert(IsDuplicate(c, rr), "symmetric")
	c.Header().Ttl = vU32("ttl2")
	vAssert(IsDuplicate(rr, c), "ttl-ignored")
	rr2, _, err := UnpackRR(w, 0)
	vAssume(err == nil)
	if !g.esc {
		// (a hand-built record that spells an octet as \\DDD where the library writes it raw is not covered by the property)
		vAssert(IsDuplicate(rr, rr2) && IsDuplicate(rr2, rr), "wire-twin-is-duplicate")
	}
	vAssert(IsDuplicate(rr2, Copy(rr2)), "wire-record-duplicate-of-its-copy")
	// a second record of the same type and shape with independent contents:
	// duplicate iff the wire forms agree apart from TTL and the case of letters inside names
	// same values except (at most) one mutated draw
	mut := vChoice("mut", len(g.vals)+1)
	other, w2, _ := vBuildRRLike("s.", t, g, mut)
	eq := vWireEqualFold(w, w2, g)
	got := IsDuplicate(rr, other)
	vObserve("dup", t, got)
	if !g.esc {
		vAssert(got == eq, "duplicate-iff-canonical-wire-equal")
	}
	vAssert(IsDuplicate(other, rr) == got, "symmetric-2")
	// the same for the records as they come from the wire (names in the library's own spelling)
	o2, _, err2 := UnpackRR(w2, 0)
	vAssume(err2 == nil)
	vAssert(IsDuplicate(rr2, o2) == eq, "wire-records-duplicate-iff-canonical-wire-equal")
}

// H_C20_apl: two APL records as they come from the wire, each with one item whose family, prefix length, negation
// flag, address length and address octets are drawn independently (so an IPv4 prefix meets the IPv4-mapped IPv6
// prefix with the same trailing octets): duplicates exactly when the RDATA octets are equal.
func H_C20_apl() {
	build := func(p string) []byte {
		fam := 1 + vChoice(p+"fam", 2)
		prefix := []int{0, 8, 24, 32}[vChoice(p+"prefix", 4)]
		var alen int
		if fam == 1 {
			alen = []int{0, 1, 3, 4}[vChoice(p+"alen", 4)]
		} else {
			alen = []int{0, 3, 15, 16}[vChoice(p+"alen", 4)]
		}
		nb := byte(alen)
		if vBool(p + "neg") {
			nb |= 0x80
		}
		rd := []byte{0, byte(fam), byte(prefix), nb}
		a := vBytes(p+"afd", alen)
		if alen > 0 {
			vAssume(a[alen-1] != 0)
		}
		rd = append(rd, a...)
		w := []byte{1, 'a', 0, 0, 42, 0, 1, 0, 0, 0, 0, 0, byte(len(rd))}
		return append(w, rd...)
	}
	w1, w2 := build("p."), build("q.")
	r1, _, e1 := UnpackRR(w1, 0)
	r2, _, e2 := UnpackRR(w2, 0)
	vAssume(e1 == nil && e2 == nil)
	vReach("apl-built")
	got := IsDuplicate(r1, r2)
	vObserve("apl", got)
	vAssert(got == refBytesEqual(w1, w2), "wire-records-duplicate-iff-canonical-wire-equal")
	vAssert(IsDuplicate(r2, r1) == got, "symmetric")
}

// vWireEqualFold compares two reference wire records of the same shape ignoring the TTL and folding
// ASCII letters inside the owner name and inside RDATA domain names (offsets known to the generator).
func vWireEqualFold(a, b []byte, g *vGen) bool {
	if len(a) != len(b) {
		return false
	}
	inName := make([]bool, len(a))
	mark := func(off int) {
		for off < len(a) && a[off] != 0 {
			l := int(a[off])
			for k := 1; k <= l && off+k < len(a); k++ {
				inName[off+k] = true
			}
			off += l + 1
		}
	}
	mark(0)
	i := 0
	for i < len(a) && a[i] != 0 {
		i += int(a[i]) + 1
	}
	ttlOff := i + 1 + 4
	rd := ttlOff + 4 + 2
	for _, o := range g.nameOffs {
		mark(rd + o)
	}
	eq := true
	for k := range a {
		if k >= ttlOff && k < ttlOff+4 {
			continue
		}
		x, y := a[k], b[k]
		if inName[k] {
			x, y = refLowerByte(x), refLowerByte(y)
		}
		if x != y {
			eq = false
		}
	}
	return eq
}

func H_C20_opt() {
	opt, _, _ := vBuildOPT("o.")
	c := Copy(opt)
	vAssertExcept(IsDuplicate(opt, c), "copy-is-duplicate", true, "C20-opt-irreflexive")
}

// H_C20_dedup: Dedup keeps the first representative of each group in order, with the group's minimum TTL.
func H_C20_dedup() {
	n := 2 + vChoice("n", 3)
	rrs := make([]RR, n)
	kinds := make([]int, n)
	ttls := make([]uint32, n)
	for i := range rrs {
		k := vChoice("k"+vItoa(i), 3)
		up := vChoice("u"+vItoa(i), 2) == 1
		ttls[i] = 100 + uint32(vU8("ttl"+vItoa(i))) // three decimal digits for every value
		owner := "a.example."
		if up {
			owner = "A.Example."
		}
		switch k {
		case 0:
			rrs[i] = &MX{Hdr: RR_Header{Name: owner, Rrtype: TypeMX, Class: ClassINET, Ttl: ttls[i]}, Preference: 10, Mx: "m.example."}
		case 1:
			rrs[i] = &MX{Hdr: RR_Header{Name: owner, Rrtype: TypeMX, Class: ClassINET, Ttl: ttls[i]}, Preference: 20, Mx: "m.example."}
		default:
			rrs[i] = &TXT{Hdr: RR_Header{Name: owner, Rrtype: TypeTXT, Class: ClassINET, Ttl: ttls[i]}, Txt: []string{"x"}}
		}
		kinds[i] = k
		// a list may also hold the very same record value twice
		if vChoice("same"+vItoa(i), 2) == 1 {
			for j := 0; j < i; j++ {
				if kinds[j] == k {
					rrs[i] = rrs[j]
					ttls[i] = ttls[j]
					break
				}
			}
		}
	}
	in := append([]RR(nil), rrs...)
	out := Dedup(in, nil)
	vReach("dedup-done")
	// reference: first occurrence of each kind, in order, with min TTL
	var wantIdx []int
	for i := range rrs {
		first := true
		for j := 0; j < i; j++ {
			if kinds[j] == kinds[i] {
				first = false
			}
		}
		if first {
			wantIdx = append(wantIdx, i)
		}
	}
	vAssert(len(out) == len(wantIdx), "one-representative-per-group")
	if len(out) != len(wantIdx) {
		return
	}
	for p, i := range wantIdx {
		vAssert(out[p] == rrs[i], "first-occurrence-kept-in-order")
		minTTL := ttls[i]
		for j := range rrs {
			if kinds[j] == kinds[i] && ttls[j] < minTTL {
				minTTL = ttls[j]
			}
		}
		vAssert(out[p].Header().Ttl == minTTL, "representative-carries-minimum-ttl")
	}
}

func H_C20_vacuity() {
	rr, _, _ := vBuildRR("r.", TypeMX)
	vAssert(!IsDuplicate(rr, Copy(rr)), "vacuity-must-fail")
}
