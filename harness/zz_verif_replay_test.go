package dns

// Native replay driver: runs harness entry points on concrete inputs (solver models)
// against the natively compiled package and prints what happened, one line per case.

import (
	"encoding/json"
	"fmt"
	"os"
	"strings"
	"testing"
)

type vReplayCase struct {
	Harness string            `json:"harness"`
	Inputs  map[string]uint64 `json:"inputs"`
	Params  map[string]int    `json:"params"`
}

func TestVerifReplay(t *testing.T) {
	path := os.Getenv("VERIF_REPLAY")
	if path == "" {
		t.Skip("VERIF_REPLAY not set")
	}
	b, err := os.ReadFile(path)
	if err != nil {
		t.Fatal(err)
	}
	var cases []vReplayCase
	if err := json.Unmarshal(b, &cases); err != nil {
		t.Fatal(err)
	}
	for i, c := range cases {
		f := vHarnesses[c.Harness]
		if f == nil {
			fmt.Printf("VERIF-RESULT case=%d harness=%s status=unknown-harness\n", i, c.Harness)
			continue
		}
		vInputs = c.Inputs
		if vInputs == nil {
			vInputs = map[string]uint64{}
		}
		vParams = c.Params
		if vParams == nil {
			vParams = map[string]int{}
		}
		vFailed, vFinding, vObs = nil, nil, nil
		vReached = map[string]int{}
		status := "ok"
		pmsg := ""
		func() {
			defer func() {
				if r := recover(); r != nil {
					if s, ok := r.(vStop); ok {
						if s.why == "infeasible" {
							status = "infeasible"
						} else {
							status = "assert"
						}
						return
					}
					status = "panic"
					pmsg = strings.ReplaceAll(fmt.Sprint(r), "\n", " ")
				}
			}()
			f()
		}()
		fmt.Printf("VERIF-RESULT case=%d harness=%s status=%s failed=%s finding=%s panic=%q\n", i, c.Harness, status,
			strings.Join(vFailed, ","), strings.Join(vFinding, ","), pmsg)
		for _, o := range vObs {
			fmt.Printf("VERIF-OBS case=%d %s\n", i, o)
		}
	}
}
