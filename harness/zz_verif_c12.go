package dns

import (
	"context"
	"sync"
	"time"
)

func init() {
	vRegister("H_C12_stream_read", H_C12_stream_read)
	vRegister("H_C12_stream_write", H_C12_stream_write)
	vRegister("H_C12_ids", H_C12_ids)
	vRegister("H_C12_pool", H_C12_pool)
	vRegister("H_C12_vacuity", H_C12_vacuity)
}

// vC12Payload: a message-like payload: 12 header octets (ID symbolic) and n symbolic body octets; short variants
// (fewer than 12 octets) are included.
func vC12Payload(pfx string, maxBody int) []byte {
	n := vChoice(pfx+"len", maxBody+3)
	switch n {
	case maxBody + 1:
		return vBytes(pfx+"short", 11)
	case maxBody + 2:
		return []byte{}
	}
	p := []byte{vU8(pfx + "id0"), vU8(pfx + "id1"), 0x80, 0, 0, 0, 0, 0, 0, 0, 0, 0}
	return append(p, vBytes(pfx+"b", n)...)
}

// vC12Stream frames the payloads, cuts the stream at a symbolic offset and serves it with read boundaries at two
// symbolic stream positions (every Read stops at the next boundary) - or octet by octet.
func vC12Stream(payloads [][]byte) (*vConn, []int) {
	var stream []byte
	var ends []int
	for _, p := range payloads {
		stream = append(stream, byte(len(p)>>8), byte(len(p)))
		stream = append(stream, p...)
		ends = append(ends, len(stream))
	}
	eof := vRange("eof", 0, len(stream))
	eof = vConcretize(eof)
	c := &vConn{in: stream[:eof]}
	switch vChoice("segmentation", 3) {
	case 0: // whatever is asked for
	case 1: // one octet per Read
		c.chunk = func(want, avail int) int { return 1 }
	default:
		b1 := vConcretize(vRange("b1", 0, len(stream)))
		b2 := vConcretize(vRange("b2", 0, len(stream)))
		c.chunk = func(want, avail int) int {
			n := want
			if avail < n {
				n = avail
			}
			for _, b := range []int{b1, b2} {
				if b > c.pos && b-c.pos < n {
					n = b - c.pos
				}
			}
			return n
		}
	}
	return c, append(ends, eof)
}

// H_C12_stream_read: the stream reader returns exactly the framed payloads, in order, whatever the segmentation; a
// stream that ends inside a frame gives an error, never a shortened or mixed message.
func H_C12_stream_read() {
	k := 1 + vChoice("frames", 2)
	var payloads [][]byte
	for i := 0; i < k; i++ {
		payloads = append(payloads, vC12Payload("p"+vItoa(i), vParam("C12.body", 3)))
	}
	conn, ends := vC12Stream(payloads)
	eof := ends[len(ends)-1]
	server := vChoice("reader", 3)
	srv := &Server{}
	srv.init()
	co := &Conn{Conn: conn}
	vReach("reading")
	broken := false
	for i := 0; i <= k; i++ {
		var p []byte
		var err error
		switch server {
		case 0:
			p, err = co.ReadMsgHeader(nil)
		case 1:
			p, err = srv.readTCP(conn, time.Second)
		default: // Conn.Read into a caller-supplied buffer
			buf := make([]byte, 64)
			var n int
			n, err = co.Read(buf)
			p = buf[:n]
		}
		vObserve("read", i, err, len(p))
		if i == k || broken {
			vAssert(err != nil, "nothing-after-the-end-of-the-stream")
			continue
		}
		want := payloads[i]
		if eof < ends[i] {
			vAssert(err != nil, "truncated-frame-is-an-error")
			broken = true
			continue
		}
		if server == 0 && len(want) < 12 {
			vAssert(err != nil, "frame-shorter-than-a-header-is-refused-by-the-client-reader")
			continue
		}
		vAssert(err == nil, "complete-frame-is-returned")
		vAssert(refBytesEqual(p, want), "returned-message-is-exactly-the-framed-payload")
	}
}

// H_C12_stream_write: writers emit length || payload in one piece for every size up to 65535 and refuse 65536.
func H_C12_stream_write() {
	sizes := []int{0, 1, 12, 255, 256, 65535, 65536}
	n := sizes[vChoice("size", len(sizes))]
	p := make([]byte, n)
	if n > 0 {
		p[0], p[n-1] = vU8("first"), vU8("last")
	}
	conn := &vConn{}
	var err error
	vReach("writing")
	if vChoice("writer", 2) == 0 {
		_, err = (&Conn{Conn: conn}).Write(p)
	} else {
		w := &response{tcp: conn}
		_, err = w.Write(p)
	}
	vObserve("write", n, err, len(conn.writes))
	if n > 65535 {
		vAssert(err != nil && len(conn.writes) == 0, "oversize-message-refused-and-nothing-written")
		return
	}
	vAssert(err == nil && len(conn.writes) == 1, "message-written-in-one-piece")
	if len(conn.writes) == 1 {
		w := conn.writes[0]
		ok := len(w) == n+2 && w[0] == byte(n>>8) && w[1] == byte(n)
		if ok && n > 0 {
			ok = w[2] == p[0] && w[len(w)-1] == p[n-1]
		}
		vAssert(ok, "wire-is-length-prefix-then-payload")
	}
}

func vC12Reply(pfx string) []byte {
	return []byte{vU8(pfx + "id0"), vU8(pfx + "id1"), 0x80, 0, 0, 0, 0, 0, 0, 0, 0, 0}
}

// vClockConn: a connected datagram socket that records the read deadlines it is given and lets time pass (one
// second of the engine clock; a moment of the real one in native replay) before every datagram it delivers.
type vClockConn struct {
	vDgramConn
	deadlines   []time.Time
	atFirstRead int
	nreads      int
}

func (c *vClockConn) SetReadDeadline(t time.Time) error {
	c.deadlines = append(c.deadlines, t)
	return nil
}
func (c *vClockConn) SetDeadline(t time.Time) error { return c.SetReadDeadline(t) }
func (c *vClockConn) Read(p []byte) (int, error) {
	if c.nreads == 0 {
		c.atFirstRead = len(c.deadlines)
	}
	c.nreads++
	vAdvanceClock(1)
	return c.vDgramConn.Read(p)
}

// H_C12_ids: the datagram exchange returns the first reply with the query's ID (skipping others) or the deadline
// error; the stream exchange returns ErrId for a reply with another ID.
func H_C12_ids() {
	vFixNow(1700000000)
	m := new(Msg)
	m.Id = vU16("qid")
	m.Question = []Question{{Name: "a.ex.", Qtype: TypeA, Qclass: ClassINET}}
	c := new(Client)
	k := vChoice("replies", vParam("C12.replies", 3)+1)
	var ids []uint16
	var replies [][]byte
	for i := 0; i < k; i++ {
		r := vC12Reply("r" + vItoa(i))
		replies = append(replies, r)
		ids = append(ids, uint16(r[0])<<8|uint16(r[1]))
	}
	vReach("exchanging")
	if vChoice("transport", 2) == 0 {
		dc := &vClockConn{}
		dc.in = replies
		r, _, err := c.ExchangeWithConnContext(context.Background(), m, &Conn{Conn: dc})
		// the deadline in force when the first datagram was awaited bounds the whole exchange: replies with other IDs
		// do not move it further away
		if dc.atFirstRead > 0 {
			base := dc.deadlines[dc.atFirstRead-1]
			for _, d := range dc.deadlines[dc.atFirstRead:] {
				vAssert(!d.After(base), "deadline-not-extended-by-skipped-replies")
			}
		}
		vAssert(dc.nreads == 0 || dc.atFirstRead > 0, "read-deadline-set-before-waiting")
		first := -1
		for i, id := range ids {
			if id == m.Id {
				first = i
				break
			}
		}
		vObserve("udp", first, err)
		vAssert(len(dc.writes) == 1, "query-sent-once")
		if first < 0 {
			vAssert(err != nil, "no-matching-reply-ends-with-the-deadline-error")
		} else {
			vAssert(err == nil && r != nil && r.Id == m.Id, "matching-reply-returned")
			vAssert(dc.pos == first+1, "replies-with-other-ids-skipped-and-nothing-read-beyond-the-match")
		}
		return
	}
	// stream: replies framed back to back
	var stream []byte
	for _, r := range replies {
		stream = append(stream, 0, byte(len(r)))
		stream = append(stream, r...)
	}
	sc := &vConn{in: stream}
	r, _, err := c.ExchangeWithConnContext(context.Background(), m, &Conn{Conn: sc})
	vObserve("tcp", err)
	switch {
	case k == 0:
		vAssert(err != nil, "no-reply-is-an-error")
	case ids[0] == m.Id:
		vAssert(err == nil && r != nil && r.Id == m.Id, "matching-stream-reply-returned")
	default:
		vAssert(err == ErrId, "stream-reply-with-other-id-is-an-id-error")
	}
}

// H_C12_pool: the request a handler sees is the decode of the octets its client sent, even though the receive
// buffer has gone back to the pool (and is overwritten with arbitrary octets there) before the handler runs, and
// the next datagram is read into the recycled buffer.
func H_C12_pool() {
	mk := func(pfx string) ([]byte, *Msg) {
		q := new(Msg)
		q.Id = vU16(pfx + "id")
		q.Question = []Question{{Name: string([]byte{'a' + vU8(pfx+"l")%26}) + ".ex.", Qtype: TypeTXT, Qclass: ClassINET}}
		// OPT with 0..2 options of every kind the generator knows (incl. full-length IPv6 client subnets), contents symbolic
		o, _, _ := vBuildOPT(pfx + "o")
		o.Hdr.Ttl &= 0x00FFFFFF // (the extended RCODE octet belongs to the message header)
		if pfx == "y" {
			o = &OPT{Hdr: RR_Header{Name: ".", Rrtype: TypeOPT, Class: 1232}}
			o.Option = []EDNS0{&EDNS0_LOCAL{Code: EDNS0LOCALSTART, Data: vBytes(pfx+"opt", 2)}}
		}
		q.Extra = []RR{o}
		b, err := q.Pack()
		vAssume(err == nil)
		ref := new(Msg)
		vAssume(ref.Unpack(append([]byte{}, b...)) == nil)
		return b, ref
	}
	b1, ref1 := mk("x")
	b2, ref2 := mk("y")
	vAssume(ref1.Id != ref2.Id)
	var mu sync.Mutex
	seen := map[int]*Msg{}
	intact := map[int]bool{}
	srv := &Server{}
	pc := &vPacketConn{in: [][]byte{b1, b2}}
	srv.Handler = HandlerFunc(func(w ResponseWriter, r *Msg) {
		mu.Lock()
		defer mu.Unlock()
		which, want := 0, ref1
		if r.Id == ref2.Id {
			which, want = 1, ref2
		}
		// this request's receive buffer is back in the pool by now: somebody else writes into it
		pc.scribbleOne(which, vBytes("scribble"+vItoa(which), 3))
		seen[which] = r
		// (recorded here, asserted by the harness goroutine: natively the handler runs on a goroutine of its own)
		intact[which] = vDeepEqual(r, want)
		reply := new(Msg)
		reply.SetReply(r)
		w.WriteMsg(reply)
	})
	srv.MsgInvalidFunc = func(m []byte, err error) {}
	srv.init()
	srv.started = true
	pc.onEnd = func() { srv.started = false }
	vReach("pool")
	err := srv.serveUDP(pc)
	vAssert(err == nil && len(seen) == 2, "both-requests-handled")
	vAssert(intact[0] && intact[1], "handler-sees-exactly-the-request-that-was-sent")
	// still intact after everything has finished and both buffers were recycled
	if len(seen) == 2 {
		vAssert(vDeepEqual(seen[0], ref1) && vDeepEqual(seen[1], ref2), "requests-stay-intact-after-their-buffers-are-reused")
	}
	vAssert(len(pc.writes) == 2, "one-reply-per-request")
	if len(pc.writes) == 2 {
		id := func(b []byte) uint16 { return uint16(b[0])<<8 | uint16(b[1]) }
		a, b := id(pc.writes[0]), id(pc.writes[1])
		vAssert((a == ref1.Id && b == ref2.Id) || (a == ref2.Id && b == ref1.Id), "each-reply-carries-its-own-request-id")
	}
}

func H_C12_vacuity() {
	p := vC12Payload("p0", 1)
	vAssert(len(p) > 100, "vacuity-twin")
}
