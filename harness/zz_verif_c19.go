package dns

func init() {
	vRegister("H_C19_single", H_C19_single)
	vRegister("H_C19_pair", H_C19_pair)
	vRegister("H_C19_pair_dotted", H_C19_pair_dotted)
	vRegister("H_C19_vacuity", H_C19_vacuity)
	vRegister("H_C19_text", H_C19_text)
}

// vPresentation turns wire labels into the library's presentation form with the real
// UnpackDomainName (the correctness of that step is C03's subject; here it only
// produces inputs "in the library's presentation form", as C19 states).
func vPresentation(labels [][]byte) string {
	w := refWire(labels)
	s, off, err := UnpackDomainName(w, 0)
	vAssume(err == nil && off == len(w))
	return s
}

func vTrimRootDot(s string) string {
	if s == "." {
		return s
	}
	return s[:len(s)-1]
}

// H_C19_single: every single-name helper agrees with the wire label sequence.
func H_C19_single() {
	maxL := vParam("C19.labels", 3)
	maxO := vParam("C19.octets", 2)
	nl := vChoice("nl", maxL+1)
	labels := vWireLabels("n", nl, maxO)
	fq := vPresentation(labels)
	s := fq
	rel := false
	if nl > 0 && vChoice("rel", 2) == 1 {
		s = vTrimRootDot(fq)
		rel = true
	}
	vReach("built")
	vObserve("name", s, IsFqdn(s), CountLabel(s), len(Split(s)), CanonicalName(s))

	// IsFqdn / Fqdn
	vAssert(IsFqdn(s) == !rel, "isfqdn")
	vAssert(Fqdn(s) == fq, "fqdn-appends-root-only")

	// CountLabel
	vAssert(CountLabel(s) == nl, "countlabel")

	// Split: offsets of exactly the wire labels
	idx := Split(s)
	vAssert(len(idx) == nl, "split-count")
	if len(idx) != nl {
		return
	}
	for i := 0; i < nl; i++ {
		end := len(fq) - 1
		if i+1 < nl {
			end = idx[i+1] - 1
		}
		vAssert(idx[i] <= end && end <= len(fq), "split-offset-order")
		if !(idx[i] <= end && end <= len(fq)) {
			return
		}
		got, gfq, ok := refParseName(fq[idx[i]:end])
		vAssert(ok && !gfq && len(got) == 1 && refBytesEqual(got[0], labels[i]), "split-offset-is-label-start")
	}
	if nl > 0 {
		vAssert(idx[0] == 0, "split-first-zero")
	}

	// SplitDomainName: the label texts decode to the wire labels
	sl := SplitDomainName(s)
	vAssert(len(sl) == nl, "splitdomainname-count")
	if len(sl) == nl {
		for i := range sl {
			got, gfq, ok := refParseName(sl[i])
			vAssert(ok && !gfq && len(got) == 1 && refBytesEqual(got[0], labels[i]), "splitdomainname-label")
		}
	}

	// NextLabel stepping visits exactly the label starts
	if nl > 0 {
		off := 0
		for i := 1; i <= nl; i++ {
			n, end := NextLabel(s, off)
			if i < nl {
				vAssert(!end && n == idx[i], "nextlabel-step")
			} else {
				vAssert(end, "nextlabel-end")
			}
			off = n
		}
	}

	// PrevLabel
	for n := 0; n <= nl+1; n++ {
		i, start := PrevLabel(s, n)
		switch {
		case n == 0:
			vAssert(i == len(s) && !start, "prevlabel-zero")
		case n <= nl:
			vAssert(i == idx[nl-n] && !start, "prevlabel-step")
		default:
			// the root name has no label start to overshoot; only checked for names with labels
			if nl > 0 {
				vAssert(start && i == 0, "prevlabel-overshoot")
			}
		}
	}

	// CanonicalName: lower-cases ASCII letters and appends the root, nothing else
	cn := CanonicalName(s)
	vAssert(len(cn) == len(fq), "canonical-length")
	if len(cn) == len(fq) {
		same := true
		for i := 0; i < len(fq); i++ {
			if cn[i] != refLowerByte(fq[i]) {
				same = false
			}
		}
		vAssert(same, "canonical-only-lowercases")
	}
	cl, cfq, cok := refParseName(cn)
	vAssert(cok && cfq && len(cl) == nl, "canonical-parses")
	if cok && len(cl) == nl {
		for i := range cl {
			vAssert(refLabelEqualFold(cl[i], labels[i]), "canonical-same-labels")
		}
	}
}

// H_C19_pair: CompareDomainName / IsSubDomain equal the shared label suffix (case-insensitive).
func H_C19_pair() {
	maxL := vParam("C19.pairlabels", 2)
	maxO := vParam("C19.pairoctets", 1)
	na := vChoice("na", maxL+1)
	nb := vChoice("nb", maxL+1)
	a := vWireLabels("a", na, maxO)
	b := vWireLabels("b", nb, maxO)
	// optionally force shared suffix labels (related names) with independent letter case
	if na > 0 && nb > 0 {
		share := vChoice("share", min(na, nb)+1)
		for k := 1; k <= share; k++ {
			la, lb := a[na-k], b[nb-k]
			vAssume(len(la) == len(lb))
			for i := range la {
				vAssume(refLowerByte(la[i]) == refLowerByte(lb[i]))
			}
		}
	}
	sa := vPresentation(a)
	sb := vPresentation(b)
	// both names fully qualified or both relative: comparing a qualified with an unqualified
	// name is outside what the helpers document (their label texts differ by the root dot)
	if na > 0 && nb > 0 && vChoice("rel", 2) == 1 {
		sa = vTrimRootDot(sa)
		sb = vTrimRootDot(sb)
	}
	want := refCommonSuffix(a, b)
	vReach("pair-built")
	got := CompareDomainName(sa, sb)
	vObserve("pair", sa, sb, got, IsSubDomain(sa, sb))
	vAssert(got == want, "comparedomainname")
	vAssert(CompareDomainName(sb, sa) == want, "comparedomainname-symmetric")
	vAssert(IsSubDomain(sa, sb) == (want == na), "issubdomain")
}

// H_C19_pair_dotted: the child name is the parent preceded by one more label of three arbitrary octets - so the
// label may itself contain a dot or a backslash followed by the parent's first label (text that looks like a label
// boundary but is not one): the helpers must follow the wire labels, not the text.
func H_C19_pair_dotted() {
	na := 1 + vChoice("na", vParam("C19.dottedlabels", 2))
	a := vWireLabels("a", na, 1)
	first := vBytes("c", 2+vChoice("cl", 2))
	b := [][]byte{first}
	for i := range a {
		lb := vBytes("b"+vItoa(i), len(a[i]))
		for j := range lb {
			vAssume(refLowerByte(lb[j]) == refLowerByte(a[i][j]))
		}
		b = append(b, lb)
	}
	sa := vPresentation(a)
	sb := vPresentation(b)
	if vChoice("rel", 2) == 1 {
		sa = vTrimRootDot(sa)
		sb = vTrimRootDot(sb)
	}
	vReach("pair-built")
	vObserve("dotted", sa, sb, IsSubDomain(sa, sb), IsSubDomain(sb, sa), CompareDomainName(sa, sb))
	vAssert(CompareDomainName(sa, sb) == na, "comparedomainname")
	vAssert(CompareDomainName(sb, sa) == na, "comparedomainname-symmetric")
	vAssert(IsSubDomain(sa, sb), "issubdomain")
	vAssert(!IsSubDomain(sb, sa), "issubdomain-not-of-own-child")
	// the child's last na-1 labels only are below the parent's parent; the text after an escaped dot is not a name
	if len(first) == 3 {
		inner := [][]byte{{first[2]}}
		inner = append(inner, b[1:]...)
		// inner = the text that follows first[1] if that octet were a label boundary
		si := vPresentation(inner)
		{
			vAssert(IsSubDomain(si, sb) == (refCommonSuffix(inner, b) == len(inner)), "issubdomain-follows-wire-labels")
		}
	}
}

// H_C19_vacuity: twin whose final assertion must be reported violated.
func H_C19_vacuity() {
	labels := vWireLabels("n", 2, 1)
	s := vPresentation(labels)
	vReach("built")
	vAssert(CountLabel(s) != 2, "vacuity-must-fail")
}

// H_C19_text: any valid presentation text (every escape spelling the packer accepts, not only the
// spellings the library emits): the helpers agree with the reference label sequence.
func H_C19_text() {
	maxN := vParam("C19.textlen", 4)
	n := 1 + vChoice("len", maxN)
	s := string(vBytes("t", n))
	labels, _, ok := refParseName(s)
	vAssume(ok && refLabelsValid(labels))
	// the helpers are specified on printable text; raw control/8-bit octets must be written as \DDD
	for i := 0; i < n; i++ {
		vAssume(s[i] > ' ' && s[i] <= '~')
	}
	nl := len(labels)
	vReach("valid-text")
	vObserve("text", s, CountLabel(s), len(Split(s)))
	vAssert(CountLabel(s) == nl, "countlabel")
	idx := Split(s)
	vAssert(len(idx) == nl, "split-count")
	sl := SplitDomainName(s)
	vAssert(len(sl) == nl, "splitdomainname-count")
	if len(sl) == nl {
		for i := range sl {
			got, gfq, gok := refParseName(sl[i])
			vAssert(gok && !gfq && len(got) == 1 && refBytesEqual(got[0], labels[i]), "splitdomainname-label")
		}
	}
	vAssert(IsSubDomain(s, s), "issubdomain-reflexive")
	vAssert(CompareDomainName(s, s) == nl, "comparedomainname-self")
}
