package dns

import "net"

func init() {
	vRegister("H_C09_truncate", H_C09_truncate)
	vRegister("H_C09_tsig", H_C09_tsig)
	vRegister("H_C09_vacuity", H_C09_vacuity)
}

func vC09Record(name string) RR {
	switch vChoice(name, 3) {
	case 0:
		return &A{Hdr: RR_Header{Name: "a.example.", Rrtype: TypeA, Class: ClassINET, Ttl: 60}, A: net.IPv4(192, 0, 2, 1)}
	case 1:
		fill := make([]byte, 200)
		for i := range fill {
			fill[i] = 'x'
		}
		return &TXT{Hdr: RR_Header{Name: "t.a.example.", Rrtype: TypeTXT, Class: ClassINET, Ttl: 60}, Txt: []string{string(fill)}}
	default:
		return &NS{Hdr: RR_Header{Name: "example.", Rrtype: TypeNS, Class: ClassINET, Ttl: 60}, Ns: "ns.a.example."}
	}
}

func vIsPrefix(got, orig []RR) bool {
	if len(got) > len(orig) {
		return false
	}
	for i := range got {
		if got[i] != orig[i] {
			return false
		}
	}
	return true
}

// H_C09_truncate: Truncate(size) for every size 0..65535 on replies with 0..2 records per section.
func H_C09_truncate() {
	maxN := vParam("C09.persection", 2)
	m := new(Msg)
	m.Response = true
	m.Question = []Question{{Name: "a.example.", Qtype: TypeTXT, Qclass: ClassINET}}
	m.Truncated = vChoice("tc", 2) == 1
	na, nn, ne := vChoice("na", maxN+1), vChoice("nn", maxN+1), vChoice("ne", maxN+1)
	for i := 0; i < na; i++ {
		m.Answer = append(m.Answer, vC09Record("a"+vItoa(i)))
	}
	for i := 0; i < nn; i++ {
		m.Ns = append(m.Ns, vC09Record("n"+vItoa(i)))
	}
	for i := 0; i < ne; i++ {
		m.Extra = append(m.Extra, vC09Record("e"+vItoa(i)))
	}
	var opt *OPT
	switch vChoice("opt", 3) {
	case 1: // OPT last
		opt = &OPT{Hdr: RR_Header{Name: ".", Rrtype: TypeOPT, Class: 4096}}
		m.Extra = append(m.Extra, opt)
	case 2: // OPT first in the additional section (RFC 6891 allows any position)
		opt = &OPT{Hdr: RR_Header{Name: ".", Rrtype: TypeOPT, Class: 4096}, Option: []EDNS0{&EDNS0_NSID{Code: EDNS0NSID, Nsid: "abcd"}}}
		m.Extra = append([]RR{opt}, m.Extra...)
	}
	origA, origN := append([]RR(nil), m.Answer...), append([]RR(nil), m.Ns...)
	var origE []RR
	for _, r := range m.Extra {
		if r != RR(opt) || opt == nil {
			origE = append(origE, r)
		}
	}
	tc0 := m.Truncated
	mu := m.Copy()
	mu.Compress = false
	ulen := mu.Len()
	size := int(vU16("size"))
	limit := size
	if limit < 512 {
		limit = 512
	}
	m.Truncate(size)
	vReach("truncated")
	b, err := m.Pack()
	vObserve("trunc", size, len(m.Answer), len(m.Ns), len(m.Extra), m.Truncated, len(b), err)
	vAssert(err == nil, "pack-succeeds")
	if err != nil {
		return
	}
	vAssert(len(b) <= limit, "fits-in-max-size-512")
	var gotE []RR
	optKept := opt == nil
	for _, r := range m.Extra {
		if opt != nil && r == RR(opt) {
			optKept = true
		} else {
			gotE = append(gotE, r)
		}
	}
	vAssert(optKept, "opt-retained")
	vAssert(vIsPrefix(m.Answer, origA) && vIsPrefix(m.Ns, origN) && vIsPrefix(gotE, origE), "sections-are-prefixes-in-order")
	dropA, dropN, dropE := len(m.Answer) < len(origA), len(m.Ns) < len(origN), len(gotE) < len(origE)
	vAssert(!dropA || (len(m.Ns) == 0 && len(gotE) == 0), "nothing-kept-after-an-earlier-drop")
	vAssert(!dropN || len(gotE) == 0, "nothing-kept-after-an-earlier-drop-2")
	dropped := dropA || dropN || dropE
	vAssert(m.Truncated == (tc0 || dropped), "tc-iff-already-set-or-dropped")
	if ulen <= limit {
		vAssert(!dropped, "fitting-message-keeps-everything")
	}
	if dropped {
		// the first dropped record would not have fitted (escape-free common types: Len is exact)
		m2 := m.Copy()
		m2.Compress = true
		switch {
		case dropA:
			m2.Answer = append(m2.Answer, origA[len(m.Answer)])
			m2.Ns, m2.Extra = nil, nil
			if opt != nil {
				m2.Extra = []RR{opt}
			}
		case dropN:
			m2.Ns = append(m2.Ns, origN[len(m.Ns)])
			m2.Extra = nil
			if opt != nil {
				m2.Extra = []RR{opt}
			}
		default:
			var ex []RR
			ex = append(ex, gotE...)
			ex = append(ex, origE[len(gotE)])
			if opt != nil {
				ex = append(ex, opt)
			}
			m2.Extra = ex
		}
		b2, err2 := m2.Pack()
		vAssert(err2 == nil && len(b2) > limit, "first-dropped-record-would-not-have-fitted")
	}
}

// H_C09_tsig: replies carrying a TSIG are left untouched.
func H_C09_tsig() {
	m := new(Msg)
	m.Question = []Question{{Name: "a.example.", Qtype: TypeTXT, Qclass: ClassINET}}
	for i := 0; i < 4; i++ {
		m.Answer = append(m.Answer, vC09Record("a"+vItoa(i)))
	}
	m.Extra = append(m.Extra, &TSIG{Hdr: RR_Header{Name: "k.", Rrtype: TypeTSIG, Class: ClassANY}, Algorithm: HmacSHA256})
	snap := vSnapshot(m)
	m.Truncate(int(vU16("size")))
	vAssert(vSame(m, snap), "tsig-reply-untouched")
}

func H_C09_vacuity() {
	m := new(Msg)
	m.Question = []Question{{Name: "a.example.", Qtype: TypeTXT, Qclass: ClassINET}}
	for i := 0; i < 4; i++ {
		m.Answer = append(m.Answer, vC09Record("a"+vItoa(i)))
	}
	m.Truncate(int(vU16("size")))
	vAssert(len(m.Answer) == 4, "vacuity-must-fail")
}
