package dns

// EDNS0 options (RFC 6891 §6.1.2 framing; option payloads per their RFCs) for the generator.

import "net"

// option kinds enumerated by the generator
var vOptCodes = []uint16{EDNS0LLQ, EDNS0UL, EDNS0NSID, EDNS0ESU, EDNS0DAU, EDNS0DHU, EDNS0N3U, EDNS0SUBNET, EDNS0EXPIRE,
	EDNS0COOKIE, EDNS0TCPKEEPALIVE, EDNS0PADDING, EDNS0EDE, EDNS0REPORTING, EDNS0ZONEVERSION, 65001}

func vNewOption(code uint16) EDNS0 {
	switch code {
	case EDNS0LLQ:
		return &EDNS0_LLQ{Code: code}
	case EDNS0UL:
		return &EDNS0_UL{Code: code}
	case EDNS0NSID:
		return &EDNS0_NSID{Code: code}
	case EDNS0ESU:
		return &EDNS0_ESU{Code: code}
	case EDNS0DAU:
		return &EDNS0_DAU{Code: code}
	case EDNS0DHU:
		return &EDNS0_DHU{Code: code}
	case EDNS0N3U:
		return &EDNS0_N3U{Code: code}
	case EDNS0SUBNET:
		return &EDNS0_SUBNET{Code: code}
	case EDNS0EXPIRE:
		return &EDNS0_EXPIRE{Code: code}
	case EDNS0COOKIE:
		return &EDNS0_COOKIE{Code: code}
	case EDNS0TCPKEEPALIVE:
		return &EDNS0_TCP_KEEPALIVE{Code: code}
	case EDNS0PADDING:
		return &EDNS0_PADDING{}
	case EDNS0EDE:
		return &EDNS0_EDE{}
	case EDNS0REPORTING:
		return &EDNS0_REPORTING{Code: code}
	case EDNS0ZONEVERSION:
		return &EDNS0_ZONEVERSION{Code: code}
	}
	return &EDNS0_LOCAL{Code: code}
}

// Bytes: raw octets held as []byte
func (g *vGen) Bytes(p *[]byte, k int) {
	if !g.check {
		b := g.blob(k)
		*p = append([]byte(nil), b...)
		g.wire = append(g.wire, b...)
		g.rec(vField{b: b})
		return
	}
	f := g.next()
	if !refBytesEqual(*p, f.b) {
		g.fail("bytes")
	}
}

// RawStr: octets held as a Go string without escaping
func (g *vGen) RawStr(p *string) {
	if !g.check {
		b := g.blob(-1)
		*p = string(b)
		g.wire = append(g.wire, b...)
		g.rec(vField{b: b})
		return
	}
	f := g.next()
	if !refBytesEqual([]byte(*p), f.b) {
		g.fail("rawstr")
	}
}

func vVisitOpt(g *vGen, e EDNS0) bool {
	switch x := e.(type) {
	case *EDNS0_LLQ:
		g.U16(&x.Version)
		g.U16(&x.Opcode)
		g.U16(&x.Error)
		g.U64(&x.Id)
		g.U32(&x.LeaseLife)
	case *EDNS0_UL:
		g.U32(&x.Lease)
		if !g.check {
			if g.choice(g.nm()+"kl", 2) == 1 {
				x.KeyLease = g.dU32()
				vAssume(x.KeyLease != 0)
				g.wire = append(g.wire, byte(x.KeyLease>>24), byte(x.KeyLease>>16), byte(x.KeyLease>>8), byte(x.KeyLease))
			}
			g.rec(vField{u: uint64(x.KeyLease)})
		} else if f := g.next(); uint64(x.KeyLease) != f.u {
			g.fail("keylease")
		}
	case *EDNS0_NSID:
		g.Hex(&x.Nsid, g.blobOrRec())
	case *EDNS0_COOKIE:
		g.Hex(&x.Cookie, g.blobOrRec())
	case *EDNS0_ESU:
		g.RawStr(&x.Uri)
	case *EDNS0_DAU:
		g.Bytes(&x.AlgCode, -1)
	case *EDNS0_DHU:
		g.Bytes(&x.AlgCode, -1)
	case *EDNS0_N3U:
		g.Bytes(&x.AlgCode, -1)
	case *EDNS0_PADDING:
		g.Bytes(&x.Padding, -1)
	case *EDNS0_LOCAL:
		g.Bytes(&x.Data, -1)
	case *EDNS0_EXPIRE:
		if !g.check {
			if g.choice(g.nm()+"em", 2) == 1 {
				x.Empty = true
				g.rec(vField{u: 1})
			} else {
				g.rec(vField{u: 0})
				g.U32(&x.Expire)
			}
		} else {
			f := g.next()
			if x.Empty != (f.u == 1) {
				g.fail("expire-empty")
			} else if !x.Empty {
				g.U32(&x.Expire)
			}
		}
	case *EDNS0_TCP_KEEPALIVE:
		if !g.check {
			if g.choice(g.nm()+"to", 2) == 1 {
				x.Timeout = g.dU16()
				vAssume(x.Timeout != 0)
				g.wire = append(g.wire, byte(x.Timeout>>8), byte(x.Timeout))
			}
			g.rec(vField{u: uint64(x.Timeout)})
		} else if f := g.next(); uint64(x.Timeout) != f.u {
			g.fail("keepalive")
		}
	case *EDNS0_EDE:
		g.U16(&x.InfoCode)
		g.RawStr(&x.ExtraText)
	case *EDNS0_ZONEVERSION:
		g.U8(&x.LabelCount)
		g.U8(&x.Type)
		g.RawStr(&x.Version)
	case *EDNS0_REPORTING:
		g.Name(&x.AgentDomain, false)
	case *EDNS0_SUBNET:
		// RFC 7871 §6: family, source prefix, scope prefix, address truncated to the prefix, zero-padded bits
		if !g.check {
			shape := g.choice(g.nm()+"sn", 6)
			var fam uint16
			var mask uint8
			switch shape {
			case 0:
				fam, mask = 1, 0
			case 1:
				fam, mask = 1, 24
			case 2:
				fam, mask = 1, 29
			case 3:
				fam, mask = 1, 32
			case 4:
				fam, mask = 2, 56
			default:
				fam, mask = 2, 128
			}
			x.Family, x.SourceNetmask = fam, mask
			x.SourceScope = g.dU8()
			alen := 4
			if fam == 2 {
				alen = 16
			}
			vAssume(int(x.SourceScope) <= alen*8)
			n := (int(mask) + 7) / 8
			ab := g.octets(n, false)
			if mask%8 != 0 {
				ab[n-1] &= byte(0xFF << (8 - mask%8))
			}
			full := make([]byte, alen)
			copy(full, ab)
			if fam == 1 {
				x.Address = net.IPv4(full[0], full[1], full[2], full[3])
			} else {
				x.Address = net.IP(full)
			}
			g.wire = append(g.wire, 0, byte(fam), mask, x.SourceScope)
			g.wire = append(g.wire, ab...)
			g.rec(vField{u: uint64(fam)<<16 | uint64(mask)<<8 | uint64(x.SourceScope), b: full})
		} else {
			f := g.next()
			if uint64(x.Family)<<16|uint64(x.SourceNetmask)<<8|uint64(x.SourceScope) != f.u {
				g.fail("subnet-hdr")
			}
			ip := []byte(x.Address)
			if x.Family == 1 && len(ip) == 16 {
				ip = ip[12:]
			}
			if !refBytesEqual(ip, f.b) {
				g.fail("subnet-addr")
			}
		}
	default:
		return false
	}
	return true
}

// vBuildOPT draws an OPT record with 0..n options. Returns record, full reference wire, generator.
func vBuildOPT(pfx string) (*OPT, []byte, *vGen) {
	g := vNewGen(pfx)
	opt := &OPT{Hdr: RR_Header{Name: ".", Rrtype: TypeOPT, Class: vU16(pfx + "udp"), Ttl: vU32(pfx + "ttl")}}
	n := g.choice(pfx+"nopt", g.maxList+2)
	for i := 0; i < n; i++ {
		code := vOptCodes[g.choice(g.nm()+"code", len(vOptCodes))]
		e := vNewOption(code)
		hdr := len(g.wire)
		g.wire = append(g.wire, byte(code>>8), byte(code), 0, 0)
		g.rec(vField{u: uint64(code)})
		vVisitOpt(g, e)
		dl := len(g.wire) - hdr - 4
		g.wire[hdr+2], g.wire[hdr+3] = byte(dl>>8), byte(dl)
		opt.Option = append(opt.Option, e)
	}
	g.rec(vField{u: uint64(n)})
	h := opt.Hdr
	w := []byte{0, 0, 41, byte(h.Class >> 8), byte(h.Class), byte(h.Ttl >> 24), byte(h.Ttl >> 16), byte(h.Ttl >> 8), byte(h.Ttl), byte(len(g.wire) >> 8), byte(len(g.wire))}
	w = append(w, g.wire...)
	return opt, w, g
}

func vCheckOPT(g *vGen, rr RR, class uint16, ttl uint32) bool {
	opt, ok := rr.(*OPT)
	if !ok {
		return false
	}
	g.check = true
	g.pos = 0
	g.ok = true
	for _, e := range opt.Option {
		f := g.next()
		if uint64(e.Option()) != f.u {
			g.fail("option-code")
			break
		}
		if !vVisitOpt(g, e) {
			g.fail("option-kind")
		}
	}
	if f := g.next(); int(f.u) != len(opt.Option) {
		g.fail("option-count")
	}
	if opt.Hdr.Name != "." || opt.Hdr.Rrtype != TypeOPT || opt.Hdr.Class != class || opt.Hdr.Ttl != ttl {
		g.fail("opt-header")
	}
	if g.pos != len(g.exp) {
		g.fail("field-count")
	}
	g.check = false
	return g.ok
}
