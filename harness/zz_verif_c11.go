package dns

func init() {
	vRegister("H_C11_generate", H_C11_generate)
	vRegister("H_C11_verify", H_C11_verify)
	vRegister("H_C11_chain", H_C11_chain)
	vRegister("H_C11_nosig", H_C11_nosig)
	vRegister("H_C11_session", H_C11_session)
	vRegister("H_C11_vacuity", H_C11_vacuity)
}

// fixed secrets (base64); the secret is not the subject of any clause except "a different secret fails"
const (
	vC11Secret  = "c2VjcmV0LWtleS1vbmU="     // "secret-key-one"
	vC11Secret2 = "c2VjcmV0LWtleS10d28="     // "secret-key-two"
	vC11Raw     = "secret-key-one"
	vC11Raw2    = "secret-key-two"
)

var vC11Algs = []struct {
	name, hash string
	wire       []byte
}{
	{HmacSHA256, "sha256", []byte("\x0bhmac-sha256\x00")},
	{HmacSHA1, "sha1", []byte("\x09hmac-sha1\x00")},
	{HmacSHA512, "sha512", []byte("\x0bhmac-sha512\x00")},
	{HmacSHA224, "sha224", []byte("\x0bhmac-sha224\x00")},
	{HmacSHA384, "sha384", []byte("\x0bhmac-sha384\x00")},
}

type vC11Case struct {
	m         *Msg
	packed    []byte // the message without TSIG, as the library packs it
	keyName   string
	keyWire   []byte // as spelled (case preserved)
	keyLower  []byte // canonical
	alg       int
	algName   string // as spelled in the TSIG (one letter possibly upper case)
	algWire   []byte // as spelled
	time      uint64
	fudge     uint16
	origID    uint16
	errc      uint16
	other     []byte
	reqMAC    []byte
	timers    bool
}

// vC11Build draws a message and the TSIG variables.
func vC11Build() *vC11Case {
	c := &vC11Case{}
	m := new(Msg)
	m.Id = vU16("id")
	m.Opcode = int(vU8("opcode") & 0xF)
	m.Response = vParam("C11.full", 0) == 1 && vChoice("qr", 2) == 1
	l := vU8("letter")
	vAssume(l >= 'a' && l <= 'z' || l >= 'A' && l <= 'Z')
	qn := string([]byte{l}) + ".ex."
	switch vChoice("shape", vParam("C11.shapes", 3)) {
	case 0:
		m.Question = []Question{{Name: qn, Qtype: TypeSOA, Qclass: ClassINET}}
	case 1:
		m.Question = []Question{{Name: qn, Qtype: TypeA, Qclass: ClassINET}}
		m.Answer = []RR{&TXT{Hdr: RR_Header{Name: qn, Rrtype: TypeTXT, Class: ClassINET, Ttl: 5}, Txt: []string{string([]byte{vU8("txt")})}}}
		m.Compress = true
	default: // another additional record in front of the TSIG
		m.Question = []Question{{Name: qn, Qtype: TypeA, Qclass: ClassINET}}
		m.Extra = []RR{&OPT{Hdr: RR_Header{Name: ".", Rrtype: TypeOPT, Class: 1232}}}
	}
	c.m = m
	p, err := m.Copy().Pack()
	vAssume(err == nil)
	c.packed = p
	k := vU8("keyletter")
	vAssume(k >= 'a' && k <= 'z' || k >= 'A' && k <= 'Z')
	c.keyName = string([]byte{k}) + "ey."
	c.keyWire = []byte{3, k, 'e', 'y', 0}
	c.keyLower = []byte{3, refLowerByte(k), 'e', 'y', 0}
	c.alg = vChoice("alg", vParam("C11.algs", len(vC11Algs)))
	c.algName = vC11Algs[c.alg].name
	c.algWire = append([]byte{}, vC11Algs[c.alg].wire...)
	if vChoice("algcase", 2) == 1 { // HMAC-sha256.: algorithm names are compared case-insensitively
		c.algName = "HMAC" + c.algName[4:]
		copy(c.algWire[1:5], "HMAC")
	}
	c.time = vU64("time") & 0xFFFFFFFFFFFF
	vAssume(c.time != 0)
	c.fudge = vU16("fudge")
	vAssume(c.fudge != 0)
	c.origID = vU16("origid")
	nerr := 2
	if vParam("C11.full", 0) == 1 {
		nerr = 3
	}
	switch vChoice("error", nerr) {
	case 0:
	case 1: // BADTIME reply carries the server time as other data
		c.errc = RcodeBadTime
		c.other = vBytes("other", 6)
	default:
		c.errc = vU16("errc")
		vAssume(c.errc != RcodeBadKey && c.errc != RcodeBadSig)
		c.other = vBytes("other", vChoice("otherlen", 3))
	}
	if vChoice("hasreq", 2) == 1 {
		c.reqMAC = vBytes("req", vParam("C11.reqmac", 4))
	}
	c.timers = vChoice("timers", 2) == 1
	return c
}

func (c *vC11Case) stub() *TSIG {
	return &TSIG{Hdr: RR_Header{Name: c.keyName, Rrtype: TypeTSIG, Class: ClassANY, Ttl: 0}, Algorithm: c.algName,
		TimeSigned: c.time, Fudge: c.fudge, OrigId: c.origID, Error: c.errc, OtherLen: uint16(len(c.other)), OtherData: refHex(c.other)}
}

func refU48(v uint64) []byte {
	return []byte{byte(v >> 40), byte(v >> 32), byte(v >> 24), byte(v >> 16), byte(v >> 8), byte(v)}
}

// refTsigInput: RFC 8945 section 4.3: request MAC (with length), the message with the original ID and without the
// TSIG, then the TSIG variables (or, for subsequent envelopes, the timers only).
func (c *vC11Case) refInput(msg []byte) []byte {
	var in []byte
	if len(c.reqMAC) > 0 {
		in = append(in, byte(len(c.reqMAC)>>8), byte(len(c.reqMAC)))
		in = append(in, c.reqMAC...)
	}
	in = append(in, byte(c.origID>>8), byte(c.origID))
	in = append(in, msg[2:]...)
	if c.timers {
		in = append(in, refU48(c.time)...)
		return append(in, byte(c.fudge>>8), byte(c.fudge))
	}
	in = append(in, c.keyLower...)
	in = append(in, 0, 255, 0, 0, 0, 0) // CLASS ANY, TTL 0
	lowerAlg := append([]byte{}, c.algWire...)
	for i := range lowerAlg {
		lowerAlg[i] = refLowerByte(lowerAlg[i])
	}
	in = append(in, lowerAlg...)
	in = append(in, refU48(c.time)...)
	in = append(in, byte(c.fudge>>8), byte(c.fudge), byte(c.errc>>8), byte(c.errc), byte(len(c.other)>>8), byte(len(c.other)))
	return append(in, c.other...)
}

// refTsigRR: the TSIG record as it appears on the wire (RFC 8945 section 4.2).
func (c *vC11Case) refRR(mac []byte) []byte {
	rd := append([]byte{}, c.algWire...)
	rd = append(rd, refU48(c.time)...)
	rd = append(rd, byte(c.fudge>>8), byte(c.fudge), byte(len(mac)>>8), byte(len(mac)))
	rd = append(rd, mac...)
	rd = append(rd, byte(c.origID>>8), byte(c.origID), byte(c.errc>>8), byte(c.errc), byte(len(c.other)>>8), byte(len(c.other)))
	rd = append(rd, c.other...)
	rr := append([]byte{}, c.keyWire...)
	rr = append(rr, 0, 250, 0, 255, 0, 0, 0, 0, byte(len(rd)>>8), byte(len(rd)))
	return append(rr, rd...)
}

// refSigned: reference signed octets: message (ID as sent) with ARCOUNT+1, followed by the TSIG record.
func (c *vC11Case) refSigned(mac []byte) []byte {
	out := append([]byte{}, c.packed...)
	ar := uint16(out[10])<<8 | uint16(out[11])
	out[10], out[11] = byte((ar+1)>>8), byte(ar+1)
	return append(out, c.refRR(mac)...)
}

// H_C11_generate: TsigGenerate emits message || TSIG with ARCOUNT+1 and the MAC is the RFC 8945 HMAC.
func H_C11_generate() {
	c := vC11Build()
	m := c.m
	m.Extra = append(m.Extra, c.stub())
	out, macHex, err := TsigGenerate(m, vC11Secret, refHex(c.reqMAC), c.timers)
	vReach("generated")
	vObserve("gen", err, len(out))
	vAssert(err == nil, "generate-succeeds")
	if err != nil {
		return
	}
	want := vHMAC(vC11Algs[c.alg].hash, []byte(vC11Raw), c.refInput(c.packed))
	vAssert(macHex == refHex(want), "mac-is-rfc8945-hmac-over-request-mac-message-variables")
	vAssertExcept(refBytesEqual(out, c.refSigned(want)), "output-is-message-then-tsig-with-arcount-plus-one", c.origID != m.Id, "C11-generate-rewrites-id")
	// and it verifies (time inside the window)
	now := c.time + uint64(vU16("skew"))
	vAssume(uint64(vU16("skew")) <= uint64(c.fudge))
	verr := tsigVerify(append([]byte{}, out...), tsigHMACProvider(vC11Secret), refHex(c.reqMAC), c.timers, now)
	vAssert(verr == nil, "generated-message-verifies")
}

// H_C11_verify: a reference-built signed message verifies exactly inside the fudge window; replacing one aspect
// by an independent symbolic value may only still verify if the value is the signed one.
func H_C11_verify() {
	c := vC11Build()
	mac := vHMAC(vC11Algs[c.alg].hash, []byte(vC11Raw), c.refInput(c.packed))
	msg := c.refSigned(mac)
	now := vU64("now") & 0xFFFFFFFFFFFF
	secret, req, timers := vC11Secret, append([]byte{}, c.reqMAC...), c.timers
	same := true
	what := vChoice("tamper", 15)
	if c.timers && (what == 2 || what == 8 || what == 12 || what == 13) && what != 14 {
		// RFC 8945 section 5.3.1: with timers only, the key name and the error/other-data fields are not digested
		// (the key is the one of the session); altering them is outside what the MAC can detect
		return
	}
	flip := func(pos int) {
		v := vU8("x8")
		same = v == msg[pos]
		msg[pos] = v
	}
	n := len(c.packed)
	algOff := n + len(c.keyWire) + 10
	timeOff := algOff + len(c.algWire)
	switch what {
	case 0: // nothing altered
	case 1: // a content octet of the message: ID (restored from OrigId, so not covered), flags, question letter, type
		pi := vChoice("pos", 6)
		p := []int{2, 3, 13, n - 1, 10, 11}[pi]
		if pi < 4 {
			flip(p)
		} else { // ARCOUNT: single-bit flips (the other counts move the record boundaries into symbolic MAC octets, which
			// multiplies the parser's paths; C02 covers the parser on arbitrary input)
			msg[p] ^= 1 << uint(vChoice("bit", 3))
			same = false
		}
	case 2: // key name letter (case-insensitive)
		v := vU8("x8")
		vAssume(v >= 'A' && v <= 'z' && v != '\\')
		same = refLowerByte(v) == c.keyLower[1]
		msg[n+1] = v
	case 3: // algorithm name letter
		v := vU8("x8")
		vAssume(v >= 'A' && v <= 'z' && v != '\\')
		p := algOff + len(c.algWire) - 2
		same = refLowerByte(v) == refLowerByte(msg[p])
		msg[p] = v
	case 4: // time signed
		flip(timeOff + vChoice("pos", 6))
	case 5: // fudge
		flip(timeOff + 6 + vChoice("pos", 2))
	case 6: // a MAC octet
		flip(timeOff + 10 + []int{0, len(mac) - 1}[vChoice("pos", 2)])
	case 7: // original ID
		flip(timeOff + 10 + len(mac) + vChoice("pos", 2))
	case 8: // error
		flip(timeOff + 10 + len(mac) + 2 + vChoice("pos", 2))
	case 9: // request MAC handed to the verifier
		if len(req) == 0 {
			req = []byte{vU8("x8")}
			same = false
		} else {
			v := vU8("x8")
			same = v == req[0]
			req[0] = v
		}
	case 10:
		secret, same = vC11Secret2, false
	case 11:
		timers, same = !timers, false
	case 12: // CLASS of the TSIG record (a TSIG variable, RFC 8945 section 4.3.3)
		flip(n + len(c.keyWire) + 2 + vChoice("pos", 2))
	case 13: // TTL of the TSIG record
		flip(n + len(c.keyWire) + 4 + vChoice("pos", 4))
	default: // an unsigned record appended behind the TSIG, ARCOUNT raised to match
		msg = append(msg, 0, 0, 16, 0, 1, 0, 0, 0, 0, 0, 2, 1, vU8("x8"))
		ar := uint16(msg[10])<<8 | uint16(msg[11])
		msg[10], msg[11] = byte((ar+1)>>8), byte(ar+1)
		same = false
	}
	vReach("presented")
	// the window is taken from the presented values (equal to the signed ones when "same"); read them before the
	// call: tsigVerify builds its digest input in place and overwrites the TSIG region of the buffer it is given
	fudge := uint16(msg[timeOff+6])<<8 | uint16(msg[timeOff+7])
	tm := uint64(msg[timeOff])<<40 | uint64(msg[timeOff+1])<<32 | uint64(msg[timeOff+2])<<24 | uint64(msg[timeOff+3])<<16 | uint64(msg[timeOff+4])<<8 | uint64(msg[timeOff+5])
	// a zero time on the wire makes the library substitute its own clock (tsigBuffer); that case is outside the claim
	vAssume(tm != 0)
	err := tsigVerify(msg, tsigHMACProvider(secret), refHex(req), timers, now)
	if what != 6 { // (a replaced MAC octet: the outcome depends on MAC octets, which differ between ideal stub and real HMAC)
		vObserve("verify", what, err)
	}
	dt := now - tm
	if now < tm {
		dt = tm - now
	}
	inWindow := dt <= uint64(fudge)
	if err == nil {
		vAssert(same, "verify-succeeds-only-for-the-signed-value")
		vAssert(inWindow, "verify-succeeds-only-inside-the-fudge-window")
	} else if same {
		vAssert(!inWindow, "unaltered-timely-message-verifies")
	}
}

// H_C11_chain: a sequence of envelopes, each MAC covering the previous one (timers only after the first), verifies in
// order; an envelope verified against any other running MAC (envelope removed, reordered, or altered) fails.
func H_C11_chain() {
	k := 2 + vChoice("len", vParam("C11.chain", 2))
	alg := vC11Algs[vChoice("alg", 2)]
	reqMAC := vBytes("req", 2)
	prev := refHex(reqMAC)
	var outs [][]byte
	var macs []string
	for i := 0; i < k; i++ {
		m := new(Msg)
		m.Id = vU16("id")
		m.Response = true
		m.Answer = []RR{&TXT{Hdr: RR_Header{Name: "z.ex.", Rrtype: TypeTXT, Class: ClassINET, Ttl: 5}, Txt: []string{string([]byte{vU8("txt" + vItoa(i))})}}}
		m.Extra = []RR{&TSIG{Hdr: RR_Header{Name: "key.", Rrtype: TypeTSIG, Class: ClassANY}, Algorithm: alg.name, TimeSigned: 1700000000 + uint64(i), Fudge: 300, OrigId: m.Id}}
		out, mac, err := TsigGenerate(m, vC11Secret, prev, i > 0)
		vAssert(err == nil, "chain-generate-succeeds")
		if err != nil {
			return
		}
		outs = append(outs, out)
		macs = append(macs, mac)
		prev = mac
	}
	vReach("chain-built")
	// in order
	prev = refHex(reqMAC)
	for i := 0; i < k; i++ {
		err := tsigVerify(append([]byte{}, outs[i]...), tsigHMACProvider(vC11Secret), prev, i > 0, 1700000100)
		vAssert(err == nil, "chain-verifies-in-order")
		prev = macs[i]
	}
	// envelope j verified with the running MAC of a different position
	j := 1 + vChoice("victim", k-1)
	wrong := refHex(reqMAC)
	if j >= 2 && vChoice("which", 2) == 1 {
		wrong = macs[j-2] // envelope j-1 was removed
	}
	if j == 1 {
		wrong = macs[1%k] // envelopes swapped / own MAC
	}
	err := tsigVerify(append([]byte{}, outs[j]...), tsigHMACProvider(vC11Secret), wrong, true, 1700000100)
	vAssert(err != nil, "envelope-out-of-sequence-fails")
	// first-envelope mode on a later envelope fails as well
	err = tsigVerify(append([]byte{}, outs[j]...), tsigHMACProvider(vC11Secret), macs[j-1], false, 1700000100)
	vAssert(err != nil, "timers-only-mismatch-fails")
}

// H_C11_nosig: a message without a TSIG record is never reported as verified.
func H_C11_nosig() {
	m := new(Msg)
	m.Id = vU16("id")
	m.Question = []Question{{Name: "a.ex.", Qtype: TypeA, Qclass: ClassINET}}
	switch vChoice("extra", 3) {
	case 1:
		m.Extra = []RR{&OPT{Hdr: RR_Header{Name: ".", Rrtype: TypeOPT, Class: 1232}}}
	case 2:
		m.Extra = []RR{&TXT{Hdr: RR_Header{Name: "key.", Rrtype: TypeTXT, Class: ClassANY}, Txt: []string{"x"}}}
	}
	b, err := m.Pack()
	vAssume(err == nil)
	if vChoice("liar", 2) == 1 {
		b[11]++ // ARCOUNT claims one more record than present
	}
	vReach("nosig")
	req := ""
	if vChoice("hasreq", 2) == 1 {
		req = "abcd"
	}
	e1 := tsigVerify(append([]byte{}, b...), tsigHMACProvider(vC11Secret), req, vChoice("timers", 2) == 1, vU64("now"))
	vAssert(e1 != nil, "message-without-tsig-is-not-verified")
	e2 := tsigVerify(append([]byte{}, b...), tsigSecretProvider(map[string]string{"key.": vC11Secret, ".": vC11Secret, "": vC11Secret}), req, false, vU64("now"))
	vAssert(e2 != nil, "message-without-tsig-is-not-verified-by-name-lookup")
}

func H_C11_vacuity() {
	c := vC11Build()
	vAssert(len(c.packed) < 12, "vacuity-twin")
}

// H_C11_session: the TSIG state kept by the client connection (Conn) and by the server's response writer: a signed
// query written by Conn.WriteMsg is accepted by the server, the server's signed reply (chained to the request MAC)
// is accepted by Conn.ReadMsg, an altered reply is not - and the same holds for a second query on the same connection.
func H_C11_session() {
	vFixNow(1700000100)
	now := vNow()
	secrets := map[string]string{"key.": vC11Secret}
	cw := &vConn{} // what the client writes
	co := &Conn{Conn: cw, TsigSecret: secrets}
	srv := &Server{TsigSecret: secrets}
	var statuses []error
	srv.Handler = HandlerFunc(func(w ResponseWriter, r *Msg) {
		statuses = append(statuses, w.TsigStatus())
		m := new(Msg)
		m.SetReply(r)
		if t := r.IsTsig(); t != nil {
			m.SetTsig(t.Hdr.Name, t.Algorithm, 300, now)
		}
		w.WriteMsg(m)
	})
	srv.MsgInvalidFunc = func(m []byte, err error) {}
	srv.init()
	sw := &vConn{} // what the server writes
	w := &response{tsigProvider: srv.tsigProvider(), tcp: sw}
	w.writer = w
	rounds := 1 + vChoice("rounds", 2)
	tamperRound := -1
	if vChoice("tamper", 2) == 1 {
		tamperRound = vChoice("tamperround", rounds)
	}
	vReach("session")
	for i := 0; i < rounds; i++ {
		q := new(Msg)
		q.Id = vU16("id" + vItoa(i))
		q.Question = []Question{{Name: string([]byte{vLower("l" + vItoa(i))}) + ".ex.", Qtype: TypeA, Qclass: ClassINET}}
		q.SetTsig("key.", HmacSHA256, 300, now)
		err := co.WriteMsg(q)
		vAssert(err == nil && len(cw.writes) == i+1, "signed-query-is-written")
		if err != nil || len(cw.writes) != i+1 {
			return
		}
		wire := cw.writes[i][2:]
		srv.serveDNS(append([]byte{}, wire...), w)
		vAssert(len(statuses) == i+1 && len(sw.writes) == i+1, "server-handles-and-answers-the-query")
		if len(statuses) != i+1 || len(sw.writes) != i+1 {
			return
		}
		vAssert(statuses[i] == nil, "server-accepts-the-clients-signed-query")
		reply := append([]byte{}, sw.writes[i]...)
		if i == tamperRound {
			reply[2+3] ^= 1 << uint(vChoice("bit", 4)) // a bit of the RCODE nibble
		}
		co.Conn = &vConn{in: reply}
		r, rerr := co.ReadMsg()
		co.Conn = cw
		vObserve("round", i, rerr)
		if i == tamperRound {
			vAssert(rerr != nil, "altered-reply-is-rejected-by-the-client")
			return
		}
		vAssert(rerr == nil && r != nil && r.Id == q.Id, "client-accepts-the-servers-signed-reply")
	}
}
