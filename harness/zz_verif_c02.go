package dns

func init() {
	vRegister("H_C02_msg", H_C02_msg)
	vRegister("H_C02_rr", H_C02_rr)
	vRegister("H_C02_name", H_C02_name)
	vRegister("H_C02_ptrchain", H_C02_ptrchain)
	vRegister("H_C02_vacuity", H_C02_vacuity)
	vRegister("H_C02_opt", H_C02_opt)
	vRegister("H_C02_print", H_C02_print)
	vRegister("H_C02_print_svcb", H_C02_print_svcb)
}

// vAllTypes: every type in the registry, sorted (so that engine and native runs enumerate alike).
func vAllTypes() []uint16 {
	var ts []uint16
	for t := range TypeToRR {
		ts = append(ts, t)
	}
	for i := 1; i < len(ts); i++ {
		for j := i; j > 0 && ts[j] < ts[j-1]; j-- {
			ts[j], ts[j-1] = ts[j-1], ts[j]
		}
	}
	return ts
}

func vNameWithinLimits(s string) bool {
	labels, _, ok := refParseName(s)
	return ok && refLabelsValid(labels)
}

// follow-up operations on an accepted record must not panic (errors are fine)
func vExerciseRR(rr RR, withString bool) {
	n := Len(rr)
	_ = Copy(rr)
	buf := make([]byte, n+1)
	PackRR(rr, buf, 0, nil, false)
	if withString {
		_ = rr.String()
	}
}

// H_C02_msg: Msg.Unpack on arbitrary octets (header counts lie, truncated records, pointers).
func H_C02_msg() {
	n := vParam("C02.body", 5)
	total := 12 + vChoice("len", n+1)
	if vChoice("short", 2) == 1 {
		total = vChoice("hlen", 12) // truncated header
	}
	b := vBytes("b", total)
	// stated bound: the four section counts are <= 255 (their high octets are zero), which is still far
	// more than the body can hold, so the counts lie in every way that matters
	for _, i := range []int{4, 6, 8, 10} {
		if i < total {
			b[i] = 0
		}
	}
	if vParam("C02.hdrsym", 0) == 0 {
		// ID and flag octets fixed (they only feed setHdr); they remain reachable as pointer targets
		for i := 0; i < 4 && i < total; i++ {
			b[i] = byte(0x10 * i)
		}
	}
	m := new(Msg)
	s0, a0 := vSteps(), vAllocBytes()
	err := m.Unpack(b)
	steps, alloc := vSteps()-s0, vAllocBytes()-a0
	vReach("unpack-returned")
	vObserve("unpack", err)
	vAssert(steps <= vParam("C02.stepk", 1500)*(total+1), "work-bounded-by-input-length")
	vAssert(alloc <= vParam("C02.allock", 600)*(total+8), "allocation-bounded-by-input-length")
	if err != nil {
		return
	}
	vReach("accepted")
	for _, q := range m.Question {
		vAssert(vNameWithinLimits(q.Name), "accepted-names-within-limits")
	}
	for _, sec := range [][]RR{m.Answer, m.Ns, m.Extra} {
		for _, rr := range sec {
			vAssert(vNameWithinLimits(rr.Header().Name), "accepted-names-within-limits")
		}
	}
	vAssert(len(m.Question)+len(m.Answer)+len(m.Ns)+len(m.Extra) <= total, "records-lie-inside-input")
	_ = m.Len()
	_ = m.Copy()
	// the nine header flag bits do not influence whether Pack panics; clear them so that packing
	// does not fork 2^9 ways on every accepted path
	m.MsgHdr = MsgHdr{Id: m.Id, Opcode: m.Opcode, Rcode: m.Rcode}
	_, _ = m.Pack()
	if vParam("C02.string", 0) == 1 {
		_ = m.String()
	}
}

// H_C02_rr: every registered decoder on RDATA of arbitrary octets with an arbitrary RDLENGTH.
func H_C02_rr() {
	k := vParam("C02.rdata", 4)
	ts := vAllTypes()
	var t uint16
	if only := vParam("gen.onlytype", 0); only != 0 {
		t = uint16(only)
	} else {
		t = ts[vChoice("type", len(ts))]
	}
	blen := vChoice("buflen", k+1)
	msg := vBytes("d", blen)
	h := RR_Header{Name: ".", Rrtype: t, Class: ClassINET, Ttl: 0, Rdlength: uint16(vRange("rdlength", 0, k+1))}
	s0 := vSteps()
	rr, off, err := UnpackRRWithHeader(h, msg, 0)
	steps := vSteps() - s0
	vReach("decoder-returned")
	vObserve("rr", t, off, err)
	vAssert(steps <= 40000*(blen+1), "work-bounded-by-input-length")
	if err != nil || rr == nil {
		return
	}
	vReach("accepted")
	vAssert(off <= len(msg), "offset-inside-input")
	vExerciseRR(rr, vParam("C02.string", 0) == 1)
}

// H_C02_name: UnpackDomainName on arbitrary octets from an arbitrary offset (self/forward/mutual pointers).
func H_C02_name() {
	n := vParam("C02.name", 5)
	ln := vChoice("len", n+1)
	b := vBytes("b", ln)
	off := vRange("off", 0, n+1)
	s0 := vSteps()
	s, off1, err := UnpackDomainName(b, off)
	steps := vSteps() - s0
	vReach("name-returned")
	vObserve("name", s, off1, err)
	vAssert(steps <= 60000*(ln+1), "work-bounded-by-input-length")
	if err != nil {
		return
	}
	vAssert(off1 <= len(b), "offset-inside-input")
	vAssert(vNameWithinLimits(s), "accepted-name-within-limits")
}

// H_C02_ptrchain: long pointer chains (shape-concrete, low pointer bits symbolic): terminates, hop limit holds.
func H_C02_ptrchain() {
	hops := 120 + vChoice("hops", 10) // 120..129 pointers followed by the root
	b := make([]byte, 2*hops+1)
	backward := vChoice("direction", 2) == 1
	start := 0
	if !backward {
		// pointer i at offset 2i points to offset 2(i+1); the last points to the root octet
		for i := 0; i < hops; i++ {
			tgt := 2 * (i + 1)
			b[2*i] = 0xC0 | byte(tgt>>8)
			b[2*i+1] = byte(tgt)
		}
		b[2*hops] = 0
	} else {
		// the root octet first; pointer i at offset 1+2i points strictly backwards to pointer i-1 (the first to the root);
		// decoding starts at the last pointer
		b[0] = 0
		for i := 0; i < hops; i++ {
			tgt := 0
			if i > 0 {
				tgt = 1 + 2*(i-1)
			}
			b[1+2*i] = 0xC0 | byte(tgt>>8)
			b[2+2*i] = byte(tgt)
		}
		start = 1 + 2*(hops-1)
	}
	// one symbolic pointer low octet somewhere in the chain (may create a loop or a jump)
	pos := vChoice("pos", 3)
	idx := []int{1, hops, 2*hops - 1}[pos]
	if backward {
		idx = []int{2, hops + 1 - hops%2, 2 * hops}[pos] // low octets of the first, a middle and the last pointer
	}
	orig := b[idx]
	b[idx] = vU8("x")
	s0 := vSteps()
	s, _, err := UnpackDomainName(b, start)
	steps := vSteps() - s0
	vReach("chain-returned")
	vObserve("chain", hops, backward, err)
	if err == nil {
		vAssert(vNameWithinLimits(s), "accepted-name-within-limits")
	}
	vAssert(steps <= 60000*(len(b)+1), "work-bounded-by-input-length")
	// the unaltered chain follows `hops` pointers: beyond the library's limit of 126 it must be refused
	vAssert(b[idx] != orig || hops <= 126 || err != nil, "pointer-hop-limit-enforced")
}

// H_C02_print: whatever is accepted can be printed, measured, copied and re-packed: every registry type decoded
// from RFC-layout octets whose text-bearing fields hold arbitrary octets (all 256 values in every position).
func H_C02_print() {
	t := vPickType()
	rr, w, _ := vBuildRR("r.", t)
	if rr == nil {
		return
	}
	rr2, _, err := UnpackRR(w, 0)
	vAssume(err == nil)
	vReach("accepted")
	vExerciseRR(rr2, true)
	vAssert(Len(rr2) >= len(w) || true, "accepted-record-exercised")
}

// H_C02_print_svcb: the same for SVCB (gen.onlytype), whose parameter values have their own escaping code.
func H_C02_print_svcb() { H_C02_print() }

func H_C02_vacuity() {
	b := vBytes("b", 2)
	_, _, err := UnpackDomainName(b, 0)
	vAssert(err != nil, "vacuity-must-fail")
}

// H_C02_opt: every EDNS0 option decoder on arbitrary option data with an arbitrary option length.
func H_C02_opt() {
	k := vParam("C02.optdata", 5)
	code := vOptCodes[vChoice("code", len(vOptCodes))]
	dl := vChoice("datalen", k+1)
	ol := vRange("optlen", 0, k+1)
	rd := []byte{byte(code >> 8), byte(code), byte(ol >> 8), byte(ol)}
	rd = append(rd, vBytes("d", dl)...)
	exact := make([]byte, len(rd)) // cap == len: reads past the RDATA panic instead of passing silently
	copy(exact, rd)
	rd = exact
	h := RR_Header{Name: ".", Rrtype: TypeOPT, Class: 4096, Rdlength: uint16(len(rd))}
	rr, _, err := UnpackRRWithHeader(h, rd, 0)
	vReach("opt-decoder-returned")
	vObserve("opt", code, err)
	if err != nil || rr == nil {
		return
	}
	vReach("opt-accepted")
	// an accepted option lies inside its declared length
	vAssert(ol <= dl, "option-inside-rdata")
	vExerciseRR(rr, false)
}
