package dns

import (
	"io"
	"io/fs"
	"strings"
	"time"
)

func init() {
	vRegister("H_C06_render", H_C06_render)
	vRegister("H_C06_generate", H_C06_generate)
	vRegister("H_C06_include", H_C06_include)
	vRegister("H_C06_vacuity", H_C06_vacuity)
}

// ---------- abstract zone and its RFC 1035 section 5 denotation ----------

type vC06Rec struct {
	ownerLabel byte   // owner is <label>.<origin>, or the origin itself when 0
	hasTTL     bool   // TTL stated on the line
	ttlDigits  []byte // decimal digits of the stated TTL
	ttlUnit    int    // 0 none, 1 s, 2 m, 3 h, 4 d, 5 w
	typ        int    // 0 A, 1 NS, 2 MX, 3 TXT
	d          byte   // a symbolic digit used in the RDATA
	c          byte   // a symbolic letter used in the RDATA
}

var vC06UnitMul = []uint32{1, 1, 60, 3600, 86400, 604800}

func refDigitsVal(ds []byte) uint32 {
	var v uint32
	for _, d := range ds {
		v = v*10 + uint32(d-'0')
	}
	return v
}

func vDigit(n string) byte {
	d := vU8(n)
	vAssume(d >= '0' && d <= '9')
	return d
}

func vLower(n string) byte {
	c := vU8(n)
	vAssume(c >= 'a' && c <= 'z')
	return c
}

// vC06Want: what one line denotes.
type vC06Want struct {
	owner string
	ttl   uint32
	typ   int
	d, c  byte
	origin string
	csfx  string // text between the RDATA name's letter and the origin ("." or, for a label ending in an escaped dot, "\\..")
}

func vC06Check(rr RR, w vC06Want) bool {
	h := rr.Header()
	if h.Name != w.owner || h.Ttl != w.ttl || h.Class != ClassINET {
		return false
	}
	switch x := rr.(type) {
	case *A:
		return w.typ == 0 && refBytesEqual(x.A.To4(), []byte{192, 0, 2, w.d - '0'})
	case *NS:
		return w.typ == 1 && x.Ns == string([]byte{w.c})+w.csfx+w.origin
	case *MX:
		return w.typ == 2 && x.Preference == uint16(w.d-'0')*10+7 && x.Mx == string([]byte{w.c})+w.csfx+w.origin
	case *TXT:
		return w.typ == 3 && len(x.Txt) == 1 && x.Txt[0] == string([]byte{w.c, ' ', w.d})
	}
	return false
}

// vC06Style: one way of writing a line (and what precedes it). The harness picks a style per record instead of
// every combination of the individual choices.
type vC06Style struct {
	dir    int // 0 none, 1 $TTL, 2 absolute $ORIGIN, 3 relative $ORIGIN
	owner  int // 0 relative, 1 absolute, 2 @, 3 origin written out, 4 omitted
	ttl    int // 0 omitted, else number of digits
	unit   int // index into "", s, m, h, d, w, H
	class  int // 0 omitted, 1 IN, 2 in
	order  int // 0 ttl class, 1 class ttl
	tcase  int
	paren  int
	tail   int // 0 nothing, 1 comment, 2 trailing blanks
	blank  int // blank/comment-only lines in front
	ttlkw  int
	esc    int // 1: the relative owner label and the relative RDATA name end in an escaped dot (l\.): still relative
}

var vC06Styles = []vC06Style{
	{owner: 0, ttl: 2, class: 1},
	{owner: 1, ttl: 0, class: 0, tcase: 1, tail: 1},
	{dir: 1, owner: 2, ttl: 0, class: 2, paren: 1},
	{owner: 4, ttl: 3, unit: 2, class: 1, order: 1, blank: 1},
	{dir: 2, owner: 0, ttl: 1, unit: 3, class: 0, tail: 2},
	{dir: 3, owner: 3, ttl: 0, class: 1, paren: 1, tail: 1},
	{owner: 4, ttl: 0, class: 0},
	{owner: 0, ttl: 2, class: 1, esc: 1},
	{dir: 1, ttlkw: 1, owner: 1, ttl: 2, unit: 5, class: 2, order: 1, tcase: 1},
	{owner: 2, ttl: 1, unit: 4, class: 0, paren: 1, blank: 1},
	{dir: 2, owner: 4, ttl: 2, unit: 6, class: 1, tail: 1},
	{dir: 1, ttlkw: 2, owner: 0, ttl: 3, unit: 1, class: 0, tcase: 1, blank: 1},
	{dir: 3, owner: 1, ttl: 0, class: 2, order: 1, tail: 2},
	{dir: 2, owner: 2, ttl: 1, class: 0, esc: 1, tail: 1},
}

// H_C06_render: a zone of 2..3 records is written in one of many equivalent ways; the parsed records are the
// denotation, whatever the rendering.
func H_C06_render() {
	n := vParam("C06.records", 2)
	nstyles := vParam("C06.styles", len(vC06Styles))
	origin := "ex."
	var sb strings.Builder
	var wants []vC06Want
	mnemonicOrigin := false
	// parser state of the reference
	var dirTTL, lastTTL, defTTL *uint32
	if vChoice("default", 2) == 1 {
		v := uint32(vU16("defttl"))
		defTTL = &v
	}
	prevOwner := ""
	for i := 0; i < n; i++ {
		p := "r" + vItoa(i)
		st := vC06Styles[vChoice(p+"style", nstyles)]
		switch st.dir {
		case 1:
			ds := []byte{vDigit(p + "t0"), vDigit(p + "t1")}
			kw := []string{"$TTL", "$ttl", "$Ttl"}[st.ttlkw]
			sb.WriteString(kw + " " + string(ds) + "\n")
			v := refDigitsVal(ds)
			dirTTL = &v
		case 2:
			origin = string([]byte{vLower(p + "o")}) + ".ex."
			sb.WriteString("$ORIGIN " + origin + "\n")
		case 3: // relative $ORIGIN: completed with the current origin
			l := vLower(p + "o")
			if l == 'a' {
				mnemonicOrigin = true
			}
			sb.WriteString("$ORIGIN " + string([]byte{l}) + " ; relative\n")
			origin = string([]byte{l}) + "." + origin
		}
		rec := vC06Rec{typ: vChoice(p+"type", 4), d: vDigit(p + "d"), c: vLower(p + "c")}
		owner := origin
		ownerText := "@"
		switch st.owner {
		case 0: // relative label
			l := vLower(p + "l")
			owner = string([]byte{l}) + "." + origin
			ownerText = string([]byte{l})
			if st.esc == 1 {
				owner = string([]byte{l}) + "\\.." + origin
				ownerText = string([]byte{l}) + "\\."
			}
		case 1: // absolute
			l := vLower(p + "l")
			owner = string([]byte{l}) + "." + origin
			ownerText = owner
		case 2: // @
		case 3: // the origin written out
			ownerText = origin
		default: // omitted: previous owner
			if prevOwner == "" {
				vAssume(false)
			}
			owner, ownerText = prevOwner, ""
		}
		prevOwner = owner
		var ttlText string
		want := vC06Want{owner: owner, typ: rec.typ, d: rec.d, c: rec.c, origin: origin, csfx: "."}
		cText := string([]byte{rec.c})
		if st.esc == 1 {
			want.csfx = "\\.."
			cText += "\\."
		}
		if st.ttl > 0 {
			var ds []byte
			for k := 0; k < st.ttl; k++ {
				ds = append(ds, vDigit(p+"td"+vItoa(k)))
			}
			suffix := []string{"", "s", "m", "h", "d", "w", "H"}[st.unit]
			mul := vC06UnitMul[[]int{0, 1, 2, 3, 4, 5, 3}[st.unit]]
			ttlText = string(ds) + suffix
			v := refDigitsVal(ds) * mul
			want.ttl = v
			lastTTL = &v
		} else {
			switch {
			case dirTTL != nil:
				want.ttl = *dirTTL
			case lastTTL != nil:
				want.ttl = *lastTTL
			case defTTL != nil:
				want.ttl = *defTTL
			default:
				vAssume(false) // no TTL anywhere: an error, not part of this harness
			}
		}
		classText := []string{"", "IN", "in"}[st.class]
		var mid string
		switch {
		case ttlText != "" && classText != "":
			if st.order == 0 {
				mid = ttlText + " " + classText
			} else {
				mid = classText + "\t" + ttlText
			}
		default:
			mid = ttlText + classText
		}
		tname := [][]string{{"A", "a"}, {"NS", "ns"}, {"MX", "Mx"}, {"TXT", "txt"}}[rec.typ][st.tcase]
		var rdata string
		switch rec.typ {
		case 0:
			rdata = "192.0.2." + string([]byte{rec.d})
		case 1:
			rdata = cText
		case 2:
			rdata = string([]byte{rec.d}) + "7 " + cText
			if st.paren == 1 {
				rdata = string([]byte{rec.d}) + "7 (\n\t" + cText + " ) "
			}
		default:
			rdata = "\"" + string([]byte{rec.c, ' ', rec.d}) + "\""
			if st.paren == 1 {
				rdata = "( ; comment (with parens) inside\n " + rdata + "\n)"
			}
		}
		line := ownerText
		if mid != "" {
			line += " " + mid
		}
		line += " " + tname + " " + rdata
		switch st.tail {
		case 1:
			line += " ; a comment; with \"quotes\" and $ORIGIN x."
		case 2:
			line += "   "
		}
		if st.blank == 1 {
			sb.WriteString("\n ; only a comment\n\n")
		}
		sb.WriteString(line + "\n")
		wants = append(wants, want)
	}
	text := sb.String()
	if vChoice("nofinalnewline", 2) == 1 {
		text = text[:len(text)-1]
	}
	zp := NewZoneParser(strings.NewReader(text), "ex.", "zone")
	if defTTL != nil {
		zp.SetDefaultTTL(*defTTL)
	}
	vReach("rendered")
	for i := 0; i < n; i++ {
		rr, ok := zp.Next()
		vObserve("rec", i, ok)
		// known finding: a relative $ORIGIN spelled like an RR type mnemonic ("a") is a syntax error
		vAssertExcept(ok && rr != nil, "every-denoted-record-is-returned", mnemonicOrigin, "C06-origin-named-like-mnemonic")
		if !ok || rr == nil {
			return
		}
		vAssert(vC06Check(rr, wants[i]), "record-is-the-denotation-of-its-line")
	}
	rr, ok := zp.Next()
	vAssert(!ok && rr == nil && zp.Err() == nil, "nothing-but-the-denoted-records")
}

// H_C06_generate: $GENERATE start-stop/step expands to one record per step with $, ${offset}, ${offset,width,base},
// $$ and \$ replaced as documented.
func H_C06_generate() {
	ranges := [][3]int{{1, 3, 1}, {0, 0, 1}, {2, 9, 3}, {10, 12, 2}, {5, 5, 7}, {0, 300, 100}, {1, 10, 3}, {3, 9, 2}, {1, 9, 4}, {7, 20, 6}}
	r := ranges[vChoice("range", len(ranges))]
	start, stop, step := r[0], r[1], r[2]
	rng := vItoa(start) + "-" + vItoa(stop)
	if step != 1 || vChoice("explicitstep", 2) == 1 {
		rng += "/" + vItoa(step)
	}
	l := vLower("l")
	form := vChoice("form", 5)
	var lhs, rhs string
	render := func(i int) (string, string) { return "", "" }
	dec := func(i int) string { return vItoa(i) }
	switch form {
	case 0: // plain $
		lhs, rhs = string([]byte{l})+"$", "192.0.2.$"
		render = func(i int) (string, string) { return string([]byte{l}) + dec(i) + ".ex.", dec(i % 256) }
	case 1: // offset
		lhs, rhs = string([]byte{l})+"${7}", "192.0.2.${-0}"
		render = func(i int) (string, string) { return string([]byte{l}) + dec(i+7) + ".ex.", dec(i % 256) }
	case 2: // width and base
		lhs, rhs = "${0,4,d}"+string([]byte{l}), "192.0.2.$"
		render = func(i int) (string, string) {
			s := dec(i)
			for len(s) < 4 {
				s = "0" + s
			}
			return s + string([]byte{l}) + ".ex.", dec(i % 256)
		}
	case 3: // hexadecimal, lower and upper case
		lhs, rhs = "${10,2,x}-${10,2,X}"+string([]byte{l}), "192.0.2.$"
		render = func(i int) (string, string) {
			h := "0123456789abcdef"
			H := "0123456789ABCDEF"
			v := i + 10
			lo, up := "", ""
			for k := 0; k < 2 || v > 0; k++ {
				lo, up = string(h[v%16])+lo, string(H[v%16])+up
				v /= 16
			}
			return lo + "-" + up + string([]byte{l}) + ".ex.", dec(i % 256)
		}
	default: // literal dollars
		lhs, rhs = string([]byte{l})+"$$x\\$$", "192.0.2.$"
		render = func(i int) (string, string) { return string([]byte{l}) + "$x$" + dec(i) + ".ex.", dec(i % 256) }
	}
	if stop > 255 {
		rhs = "192.0.2.1"
	}
	text := "$ORIGIN ex.\n$GENERATE " + rng + " " + lhs + " 300 IN A " + rhs + "\nlast 60 IN A 192.0.2.254\n"
	zp := NewZoneParser(strings.NewReader(text), "", "zone")
	vReach("generating")
	for i := start; i <= stop; i += step {
		rr, ok := zp.Next()
		vAssert(ok && rr != nil, "one-record-per-step")
		if !ok || rr == nil {
			return
		}
		owner, last := render(i)
		a, isA := rr.(*A)
		vAssert(isA && rr.Header().Name == owner && rr.Header().Ttl == 300, "iterator-substituted-in-owner")
		if isA && stop <= 255 {
			vAssert(a.A.String() == "192.0.2."+last, "iterator-substituted-in-rdata")
		}
	}
	rr, ok := zp.Next()
	vAssert(ok && rr != nil && rr.Header().Name == "last.ex.", "parsing-continues-after-the-generated-records")
	_, ok = zp.Next()
	vAssert(!ok && zp.Err() == nil, "end-after-the-last-record")
}

// vC06FS: an in-memory fs.FS that records what is opened.
type vC06FS struct {
	files  map[string]string
	opened []string
}

type vC06File struct {
	name string
	r    *strings.Reader
}

func (f *vC06File) Stat() (fs.FileInfo, error) { return vC06Info{f.name, f.r.Size()}, nil }
func (f *vC06File) Read(p []byte) (int, error) { return f.r.Read(p) }
func (f *vC06File) Close() error               { return nil }

type vC06Info struct {
	name string
	size int64
}

func (i vC06Info) Name() string       { return i.name }
func (i vC06Info) Size() int64        { return i.size }
func (i vC06Info) Mode() fs.FileMode  { return 0o444 }
func (i vC06Info) ModTime() time.Time { return time.Time{} }
func (i vC06Info) IsDir() bool        { return false }
func (i vC06Info) Sys() any           { return nil }

func (f *vC06FS) Open(name string) (fs.File, error) {
	f.opened = append(f.opened, name)
	data, ok := f.files[name]
	if !ok {
		return nil, &fs.PathError{Op: "open", Path: name, Err: fs.ErrNotExist}
	}
	return &vC06File{name, strings.NewReader(data)}, nil
}

var _ = io.EOF

// H_C06_include: $INCLUDE splices the file's records under the stated origin (or the current one) and the
// includer's origin is unchanged afterwards.
func H_C06_include() {
	l := vLower("l")
	withOrigin := vChoice("origin", 3)
	inc := "$INCLUDE sub.zone"
	subOrigin := "ex."
	switch withOrigin {
	case 1:
		inc += " " + string([]byte{l}) + ".ex."
		subOrigin = string([]byte{l}) + ".ex."
	case 2: // relative origin argument
		inc += " " + string([]byte{l})
		subOrigin = string([]byte{l}) + ".ex."
	}
	if vChoice("comment", 2) == 1 {
		inc += " ; include it"
	}
	main := "a 60 IN A 192.0.2.1\n" + inc + "\nb 60 IN NS n\n"
	sub := "x 30 IN A 192.0.2.9\n@ 30 IN MX 10 m\n"
	if vChoice("suborigin", 2) == 1 {
		sub = "$ORIGIN deep.ex.\n" + sub // an $ORIGIN inside the included file must not leak out
		subOrigin = "deep.ex."
	}
	fsys := &vC06FS{files: map[string]string{"sub.zone": sub}}
	zp := NewZoneParser(strings.NewReader(main), "ex.", "main.zone")
	zp.SetIncludeAllowed(true)
	zp.SetIncludeFS(fsys)
	vReach("including")
	want := []struct{ owner, target string }{{"a.ex.", ""}, {"x." + subOrigin, ""}, {subOrigin, "m." + subOrigin}, {"b.ex.", "n.ex."}}
	for i, w := range want {
		rr, ok := zp.Next()
		vObserve("inc", i, ok)
		vAssert(ok && rr != nil, "included-records-are-spliced-in-order")
		if !ok || rr == nil {
			return
		}
		// known finding: a relative origin argument spelled like an RR type or class mnemonic ("a") is lexed as that
		// keyword and silently ignored
		vAssertExcept(rr.Header().Name == w.owner, "owner-completed-with-the-right-origin", withOrigin == 2 && (l == 'a'), "C06-origin-named-like-mnemonic")
		switch x := rr.(type) {
		case *MX:
			vAssertExcept(x.Mx == w.target, "included-rdata-names-use-the-include-origin", withOrigin == 2 && (l == 'a'), "C06-origin-named-like-mnemonic")
		case *NS:
			vAssert(x.Ns == w.target, "includers-origin-unchanged-after-include")
		}
	}
	_, ok := zp.Next()
	vAssert(!ok && zp.Err() == nil, "end-after-the-last-record")
	vAssert(len(fsys.opened) == 1 && fsys.opened[0] == "sub.zone", "exactly-the-named-file-is-opened")
}

func H_C06_vacuity() {
	zp := NewZoneParser(strings.NewReader(string([]byte{vLower("l")})+" 60 IN A 192.0.2.1\n"), "ex.", "zone")
	rr, ok := zp.Next()
	vAssert(!ok && rr == nil, "vacuity-twin")
}
