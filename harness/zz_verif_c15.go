package dns

import "net"

func init() {
	vRegister("H_C15_axfr", H_C15_axfr)
	vRegister("H_C15_ixfr", H_C15_ixfr)
	vRegister("H_C15_tsig", H_C15_tsig)
	vRegister("H_C15_vacuity", H_C15_vacuity)
}

func vC15SOA(serial uint32) RR {
	return &SOA{Hdr: RR_Header{Name: "z.ex.", Rrtype: TypeSOA, Class: ClassINET, Ttl: 60}, Ns: "ns.z.ex.", Mbox: "h.z.ex.", Serial: serial, Refresh: 1, Retry: 2, Expire: 3, Minttl: 4}
}

func vC15A(n string) RR {
	return &A{Hdr: RR_Header{Name: "a.z.ex.", Rrtype: TypeA, Class: ClassINET, Ttl: 60}, A: net.IPv4(192, 0, 2, vU8(n))}
}

// vC15Split cuts a record sequence into envelopes: every composition of len(rrs) (chosen per path).
func vC15Split(rrs []RR) [][]RR {
	if vParam("C15.allsplits", 1) == 0 && len(rrs) > 3 {
		// reduced bound: everything in one envelope, one record per envelope, or cut in the middle
		switch vChoice("split", 3) {
		case 0:
			return [][]RR{rrs}
		case 1:
			var out [][]RR
			for _, r := range rrs {
				out = append(out, []RR{r})
			}
			return out
		default:
			h := len(rrs) / 2
			return [][]RR{rrs[:h], rrs[h:]}
		}
	}
	var out [][]RR
	cur := []RR{}
	for i, r := range rrs {
		cur = append(cur, r)
		if i == len(rrs)-1 || vChoice("cut"+vItoa(i), 2) == 1 {
			out = append(out, cur)
			cur = []RR{}
		}
	}
	return out
}

// refSameRRs: the same records (type, owner, SOA fields / address) in the same order.
func refSameRRs(a, b []RR) bool {
	if len(a) != len(b) {
		return false
	}
	for i := range a {
		ha, hb := a[i].Header(), b[i].Header()
		if ha.Rrtype != hb.Rrtype || ha.Name != hb.Name || ha.Class != hb.Class || ha.Ttl != hb.Ttl {
			return false
		}
		switch x := a[i].(type) {
		case *SOA:
			y := b[i].(*SOA)
			if x.Serial != y.Serial || x.Ns != y.Ns || x.Mbox != y.Mbox || x.Refresh != y.Refresh || x.Minttl != y.Minttl {
				return false
			}
		case *A:
			y := b[i].(*A)
			if !refBytesEqual(x.A.To4(), y.A.To4()) {
				return false
			}
		default:
			return false
		}
	}
	return true
}

type vC15Fault struct {
	kind int // 0 none, 1 wrong ID, 2 non-zero RCODE, 3 stream ends before envelope, 4 stream ends inside envelope
	at   int
}

// vC15Serve packs the envelopes (applying the fault) into a length-prefixed stream. extra: one more well-formed
// envelope after the end of the transfer, which must not be consumed.
func vC15Serve(qid uint16, envs [][]RR, f vC15Fault, sign func(i int, m *Msg) []byte) (*vConn, []int) {
	var stream []byte
	var ends []int
	for i, e := range envs {
		m := new(Msg)
		m.Id, m.Response, m.Authoritative = qid, true, true
		if f.kind == 1 && f.at == i {
			m.Id = vU16("badid")
			vAssume(m.Id != qid)
		}
		if f.kind == 2 && f.at == i {
			m.Rcode = []int{RcodeServerFailure, RcodeRefused, RcodeNotAuth, 15}[vChoice("rcode", 4)]
		}
		m.Answer = e
		var b []byte
		if sign != nil {
			b = sign(i, m)
		} else {
			var err error
			b, err = m.Pack()
			vAssume(err == nil)
		}
		if f.kind == 3 && f.at == i {
			break
		}
		stream = append(stream, byte(len(b)>>8), byte(len(b)))
		if f.kind == 4 && f.at == i {
			cut := vConcretize(vRange("cutat", 0, len(b)-1))
			stream = append(stream, b[:cut]...)
			break
		}
		stream = append(stream, b...)
		ends = append(ends, len(stream))
	}
	return &vConn{in: stream}, ends
}

type vC15Got struct {
	rrs [][]RR
	err []error
}

func vC15Run(t *Transfer, q *Msg, conn *vConn) (*vC15Got, bool) {
	ch, err := t.In(q, "unused:53")
	vAssert(err == nil, "transfer-starts")
	if err != nil {
		return nil, false
	}
	g := &vC15Got{}
	for e := range ch {
		g.rrs = append(g.rrs, e.RR)
		g.err = append(g.err, e.Error)
		vAssert(len(g.rrs) < 12, "channel-delivers-finitely-many-envelopes")
	}
	// channel closed: the connection must be closed already
	return g, conn.closed
}

// vC15Check compares what arrived with the reference: the envelopes up to and including the one that holds the
// closing SOA (index last), all without error; or, with a fault at envelope f.at, the envelopes before it without
// error followed by exactly one envelope carrying an error.
func vC15Check(g *vC15Got, closedFirst bool, envs [][]RR, last int, f vC15Fault, conn *vConn, ends []int) {
	vAssert(closedFirst, "connection-closed-before-the-channel")
	wantOK := last + 1
	faulty := f.kind != 0 && f.at <= last
	if faulty {
		wantOK = f.at
	}
	vObserve("xfr", len(g.rrs), wantOK, faulty)
	if faulty {
		vAssert(len(g.rrs) == wantOK+1, "fault-ends-the-transfer-with-one-error-envelope")
	} else {
		vAssert(len(g.rrs) == wantOK, "transfer-ends-exactly-at-the-closing-soa")
	}
	for i := 0; i < len(g.rrs) && i < wantOK; i++ {
		vAssert(g.err[i] == nil, "envelopes-before-the-end-carry-no-error")
		vAssert(refSameRRs(g.rrs[i], envs[i]), "records-delivered-as-transmitted-in-order")
	}
	if faulty && len(g.rrs) == wantOK+1 {
		vAssert(g.err[wantOK] != nil, "fault-is-reported-as-an-error")
		if f.kind == 1 {
			vAssert(g.err[wantOK] == ErrId, "wrong-id-is-an-id-error")
		}
	}
	if !faulty && last < len(ends) {
		vAssert(conn.pos == ends[last], "nothing-read-beyond-the-closing-soa")
	}
}

func vC15FaultChoice(n int) vC15Fault {
	k := vChoice("fault", 5)
	f := vC15Fault{kind: k}
	if k != 0 {
		f.at = vChoice("faultat", n)
	}
	return f
}

// H_C15_axfr: SOA, 0..N records, SOA in every composition into envelopes, optionally followed by a further
// envelope that must stay unread; faults at every envelope.
func H_C15_axfr() {
	serial := vU32("serial")
	rrs := []RR{vC15SOA(serial)}
	k := vChoice("records", vParam("C15.records", 2)+1)
	for i := 0; i < k; i++ {
		rrs = append(rrs, vC15A("a"+vItoa(i)))
	}
	firstNotSOA := vChoice("firstnotsoa", 2) == 1
	if firstNotSOA {
		rrs[0] = vC15A("first")
	}
	rrs = append(rrs, vC15SOA(serial))
	envs := vC15Split(rrs)
	last := len(envs) - 1
	if vChoice("extra", 2) == 1 {
		envs = append(envs, []RR{vC15A("beyond")})
	}
	f := vC15FaultChoice(last + 1)
	q := new(Msg)
	q.SetAxfr("z.ex.")
	q.Id = vU16("qid")
	conn, ends := vC15Serve(q.Id, envs, f, nil)
	t := &Transfer{Conn: &Conn{Conn: conn}}
	vReach("axfr")
	g, closedFirst := vC15Run(t, q, conn)
	if g == nil {
		return
	}
	if firstNotSOA {
		// the first envelope is answered with an error (ID/RCODE/stream faults at envelope 0 come first)
		vAssert(len(g.rrs) == 1 && g.err[0] != nil, "first-record-not-soa-is-an-error")
		if f.kind == 0 || f.at > 0 {
			vAssert(g.err[0] == ErrSoa, "first-record-not-soa-is-reported-as-such")
		}
		vAssert(closedFirst, "connection-closed-before-the-channel")
		return
	}
	vC15Check(g, closedFirst, envs, last, f, conn, ends)
}

// H_C15_ixfr: the three RFC 1995 answer forms: single SOA (client up to date), AXFR-style (SOA records SOA), and
// one or two difference sequences; every composition into envelopes; faults at every envelope.
func H_C15_ixfr() {
	qser := vU32("qserial")
	news := vU32("newserial")
	var rrs []RR
	form := vChoice("form", 4)
	switch form {
	case 0: // up to date: a single SOA whose serial is not newer than the client's
		vAssume(news <= qser)
		rrs = []RR{vC15SOA(news)}
	case 1: // AXFR-style fallback
		vAssume(news > qser)
		rrs = []RR{vC15SOA(news)}
		for i := 0; i < vChoice("records", vParam("C15.records", 2)+1); i++ {
			rrs = append(rrs, vC15A("a"+vItoa(i)))
		}
		rrs = append(rrs, vC15SOA(news))
		if len(rrs) == 2 {
			// SOA SOA is indistinguishable from the start of a difference sequence unless it ends the stream: the
			// RFC 1995 reading is "AXFR-style with an empty zone"; the library waits for a third SOA. Not demanded.
			rrs = append(rrs[:1], vC15A("only"), vC15SOA(news))
		}
	default: // difference sequences: SOA(new) { SOA(old) deletions SOA(next) additions } SOA(new)
		vAssume(news > qser)
		mid := vU32("midserial")
		vAssume(mid != news && mid != qser)
		rrs = []RR{vC15SOA(news)}
		if form == 2 {
			rrs = append(rrs, vC15SOA(qser), vC15A("del"), vC15SOA(news), vC15A("add"))
		} else {
			rrs = append(rrs, vC15SOA(qser), vC15A("del"), vC15SOA(mid), vC15SOA(mid), vC15SOA(news), vC15A("add"))
		}
		rrs = append(rrs, vC15SOA(news))
	}
	envs := vC15Split(rrs)
	last := len(envs) - 1
	if vChoice("extra", 2) == 1 {
		envs = append(envs, []RR{vC15A("beyond")})
	}
	f := vC15FaultChoice(last + 1)
	q := new(Msg)
	q.SetIxfr("z.ex.", qser, "ns.z.ex.", "h.z.ex.")
	q.Id = vU16("qid")
	conn, ends := vC15Serve(q.Id, envs, f, nil)
	t := &Transfer{Conn: &Conn{Conn: conn}}
	vReach("ixfr")
	g, closedFirst := vC15Run(t, q, conn)
	if g == nil {
		return
	}
	vC15Check(g, closedFirst, envs, last, f, conn, ends)
}

// H_C15_tsig: with a TSIG key configured, a transfer whose envelopes were signed as a chain completes without error,
// and it does not when one envelope is unsigned, signed with another key, taken out of order, or altered.
func H_C15_tsig() {
	secrets := map[string]string{"key.": vC11Secret}
	alg := HmacSHA256
	vFixNow(1700000100) // engine clock; native replay uses the real clock and times relative to it
	base := vNow() - 100
	serial := vU32("serial")
	rrs := []RR{vC15SOA(serial), vC15A("a0"), vC15A("a1"), vC15SOA(serial)}
	envs := vC15Split(rrs)
	n := len(envs)
	q := new(Msg)
	q.SetAxfr("z.ex.")
	q.Id = vU16("qid")
	q.SetTsig("key.", alg, 300, base)
	// the request MAC the server would have seen
	qcopy := q.Copy()
	_, reqMAC, gerr := TsigGenerate(qcopy, vC11Secret, "", false)
	vAssume(gerr == nil)
	what := vChoice("tamper", vParam("C15.tampers", 8))
	victim := vChoice("victim", n)
	running := reqMAC
	var macs []string
	sign := func(i int, m *Msg) []byte {
		secret := vC11Secret
		if what == 2 && i == victim {
			secret = vC11Secret2
		}
		if (what == 1 || what == 6) && i == victim { // unsigned envelope (6: carrying an OPT as only additional record)
			if what == 6 {
				m.Extra = []RR{&OPT{Hdr: RR_Header{Name: ".", Rrtype: TypeOPT, Class: 1232}}}
			}
			b, err := m.Pack()
			vAssume(err == nil)
			return b
		}
		m.SetTsig("key.", alg, 300, base+int64(i))
		prev := running
		if what == 3 && i == victim && i > 0 { // chained to the wrong predecessor (an envelope was dropped / reordered)
			if i >= 2 {
				prev = macs[i-2]
			} else {
				prev = "abcd"
			}
		}
		b, mac, err := TsigGenerate(m, secret, prev, i > 0)
		vAssume(err == nil)
		macs = append(macs, mac)
		running = mac
		if what == 4 && i == victim { // one bit of the signed envelope flipped after signing
			pos := []int{13, 25}[vChoice("flippos", 2)] // a letter of the first owner name, the low TTL octet of the first record
			b[pos] ^= 1 << uint(vChoice("flipbit", 8))
		}
		if what == 7 && i == victim { // the message ID on the wire altered after signing (the TSIG's original ID and MAC stay valid)
			nid := vU16("wireid")
			vAssume(nid != q.Id)
			b[0], b[1] = byte(nid>>8), byte(nid)
		}
		return b
	}
	conn, _ := vC15Serve(q.Id, envs, vC15Fault{}, sign)
	t := &Transfer{Conn: &Conn{Conn: conn}, TsigSecret: secrets}
	if what == 5 { // the client holds another secret under this key name
		t.TsigSecret = map[string]string{"key.": vC11Secret2}
	}
	vReach("tsig")
	g, closedFirst := vC15Run(t, q, conn)
	if g == nil {
		return
	}
	vAssert(closedFirst, "connection-closed-before-the-channel")
	anyErr := false
	for _, e := range g.err {
		if e != nil {
			anyErr = true
		}
	}
	vObserve("tsig", what, victim, len(g.rrs), anyErr)
	tampered := what == 1 || what == 2 || what == 4 || what == 5 || what == 6 || what == 7 || (what == 3 && victim > 0)
	if !tampered {
		vAssert(!anyErr && len(g.rrs) == n, "properly-chained-transfer-completes")
	} else {
		vAssert(anyErr, "tampered-chain-is-not-reported-complete-and-error-free")
	}
}

func H_C15_vacuity() {
	envs := vC15Split([]RR{vC15SOA(1), vC15SOA(1)})
	vAssert(len(envs) == 0, "vacuity-twin")
}
