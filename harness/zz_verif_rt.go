package dns

// Harness runtime: nondeterministic inputs, assumptions and assertions.
//
// Under the symbolic engine (symgo) every function in this file is intercepted by name
// and the bodies below are not executed. Compiled natively (replay of a solver model
// against the real build, translator self-test) the bodies read the inputs from
// vInputs and record what happened.

import (
	"crypto/hmac"
	"crypto/sha1"
	"crypto/sha256"
	"crypto/sha512"
	"fmt"
	"hash"
	"reflect"
	"runtime"
	"strings"
	"time"
)

var (
	vInputs  = map[string]uint64{}
	vParams  = map[string]int{}
	vFailed  []string // ids of failed assertions, in order
	vFinding []string // finding ids of failed in-region assertions
	vObs     []string
	vReached = map[string]int{}
	vUsed    = map[string]bool{}
)

type vStop struct{ why string }

var vHarnesses = map[string]func(){}

func vRegister(name string, f func()) { vHarnesses[name] = f }

func vIn(n string) uint64 {
	vUsed[n] = true
	return vInputs[n]
}

func vU8(n string) uint8   { return uint8(vIn(n)) }
func vU16(n string) uint16 { return uint16(vIn(n)) }
func vU32(n string) uint32 { return uint32(vIn(n)) }
func vU64(n string) uint64 { return vIn(n) }
func vBool(n string) bool  { return vIn(n)&1 != 0 }

// vRange returns an integer lo <= x <= hi.
func vRange(n string, lo, hi int) int {
	if lo == hi {
		return lo
	}
	x := int(vIn(n))
	if x < lo || x > hi {
		panic(vStop{"infeasible"})
	}
	return x
}

// vChoice returns a concrete value 0..k-1 (the engine enumerates all of them).
func vChoice(n string, k int) int {
	v := int(vIn("#" + n))
	if v >= k {
		v = 0
	}
	return v
}

// vBytes returns k octets n.0 .. n.(k-1).
func vBytes(n string, k int) []byte {
	b := make([]byte, k)
	for i := range b {
		b[i] = uint8(vIn(fmt.Sprintf("%s.%d", n, i)))
	}
	return b
}

func vAssume(c bool) {
	if !c {
		panic(vStop{"infeasible"})
	}
}

// vAssert is a proof obligation: on every path, for all values of the symbolic inputs.
func vAssert(c bool, id string) {
	if !c {
		vFailed = append(vFailed, id)
		vFinding = append(vFinding, "")
		panic(vStop{"assert"})
	}
}

// vAssertExcept: c must hold outside region; inside region a failure is the named finding.
func vAssertExcept(c bool, id string, region bool, finding string) {
	if !c {
		vFailed = append(vFailed, id)
		if region {
			vFinding = append(vFinding, finding)
		} else {
			vFinding = append(vFinding, "")
		}
		panic(vStop{"assert"})
	}
}

func vReach(id string) { vReached[id]++ }

// vObserve records values for the translator self-test (engine and native must agree).
func vObserve(tag string, xs ...any) {
	var sb strings.Builder
	sb.WriteString(tag)
	for _, x := range xs {
		sb.WriteByte(' ')
		switch x := x.(type) {
		case nil:
			sb.WriteString("nil")
		case string:
			fmt.Fprintf(&sb, "%x", []byte(x))
		case []byte:
			fmt.Fprintf(&sb, "%x", x)
		case error:
			if x == nil {
				sb.WriteString("nil")
			} else {
				sb.WriteString("non-nil")
			}
		case bool, int, int8, int16, int32, int64, uint, uint8, uint16, uint32, uint64:
			fmt.Fprint(&sb, x)
		default:
			sb.WriteString("non-nil")
		}
	}
	vObs = append(vObs, sb.String())
}

// vSteps / vAllocBytes: work and allocation counters. Under the engine they are exact counts of
// interpreted SSA instructions and of bytes requested by make/new/append. Natively (replay of a
// budget violation) allocation is the runtime's TotalAlloc and work is approximated by 40 steps per
// heap allocation, which is enough to confirm a loop that runs (and allocates) far beyond its input.
func vSteps() int {
	var ms runtime.MemStats
	runtime.ReadMemStats(&ms)
	return int(ms.Mallocs) * 40
}

func vAllocBytes() int {
	var ms runtime.MemStats
	runtime.ReadMemStats(&ms)
	return int(ms.TotalAlloc)
}
func vSymbolic() bool  { return false }

// vParam returns a bound chosen by the check's tier (engine: -params; native: replay file).
func vParam(name string, def int) int {
	if v, ok := vParams[name]; ok {
		return v
	}
	return def
}

// vNow: the instant time.Now() reports during this run. Engine: one symbolic instant shared with the time.Now
// stub. Native replay: the real clock (harnesses express times relative to it), read early in a second so that
// the code under test sees the same second.
func vNow() int64 {
	t := time.Now()
	if t.Nanosecond() > 700_000_000 {
		time.Sleep(time.Duration(1_000_000_000-t.Nanosecond()) * time.Nanosecond)
		t = time.Now()
	}
	return t.Unix()
}

// vFixNow makes the engine's clock a fixed instant for this path (native replay keeps the real clock; harnesses
// express times relative to vNow()).
func vFixNow(t int64) {}

// vAdvanceClock lets n seconds pass on the engine clock (native: a moment of real time passes).
func vAdvanceClock(n int) { time.Sleep(2 * time.Millisecond) }

// vNoteBase64 / vBase64Source: the reference encoder records (text, source octets) so that decoding exactly that
// text again is the identity at term level (engine only; natively nothing is recorded and decoders run normally).
func vNoteBase64(text string, src []byte)       {}
func vBase64Source(text string) ([]byte, bool) { return nil, false }

// vConcretize asks the engine to fork over all feasible values of x.
func vConcretize(x int) int { return x }

// ---------- object graphs (engine: heap walk over boxed values; native: reflect) ----------

var vSnaps []string

// vSnapshot records the deep value of x (following pointers); vSame compares against it.
func vSnapshot(x any) int {
	vSnaps = append(vSnaps, vDump(x))
	return len(vSnaps) - 1
}

func vSame(x any, h int) bool { return vDump(x) == vSnaps[h] }

// vDeepEqual: structural equality following pointers; nil and empty slices are equal.
func vDeepEqual(a, b any) bool { return vDump(a) == vDump(b) }

func vDump(x any) string {
	var sb strings.Builder
	vDumpValue(&sb, reflect.ValueOf(x), map[uintptr]bool{})
	return sb.String()
}

func vDumpValue(sb *strings.Builder, v reflect.Value, seen map[uintptr]bool) {
	if !v.IsValid() {
		sb.WriteString("nil;")
		return
	}
	switch v.Kind() {
	case reflect.Pointer:
		if v.IsNil() {
			sb.WriteString("nil;")
			return
		}
		if seen[v.Pointer()] {
			sb.WriteString("cycle;")
			return
		}
		seen[v.Pointer()] = true
		sb.WriteString("&")
		vDumpValue(sb, v.Elem(), seen)
		delete(seen, v.Pointer())
	case reflect.Interface:
		if v.IsNil() {
			sb.WriteString("nil;")
			return
		}
		fmt.Fprintf(sb, "(%s)", v.Elem().Type())
		vDumpValue(sb, v.Elem(), seen)
	case reflect.Struct:
		sb.WriteString("{")
		for i := 0; i < v.NumField(); i++ {
			if v.Type().Field(i).Type.Kind() == reflect.Func {
				continue
			}
			vDumpValue(sb, v.Field(i), seen)
		}
		sb.WriteString("}")
	case reflect.Slice, reflect.Array:
		fmt.Fprintf(sb, "[%d:", v.Len())
		for i := 0; i < v.Len(); i++ {
			vDumpValue(sb, v.Index(i), seen)
		}
		sb.WriteString("]")
	case reflect.String:
		fmt.Fprintf(sb, "%q;", v.String())
	case reflect.Map:
		fmt.Fprintf(sb, "map%d;", v.Len())
	case reflect.Bool:
		fmt.Fprintf(sb, "%v;", v.Bool())
	case reflect.Int, reflect.Int8, reflect.Int16, reflect.Int32, reflect.Int64:
		fmt.Fprintf(sb, "%d;", v.Int())
	case reflect.Uint, reflect.Uint8, reflect.Uint16, reflect.Uint32, reflect.Uint64, reflect.Uintptr:
		fmt.Fprintf(sb, "%d;", v.Uint())
	default:
		sb.WriteString("?;")
	}
}

type vRange_ struct{ lo, hi uintptr }

func vCollect(v reflect.Value, out *[]vRange_, seen map[uintptr]bool) {
	if !v.IsValid() {
		return
	}
	switch v.Kind() {
	case reflect.Pointer:
		if v.IsNil() || seen[v.Pointer()] {
			return
		}
		seen[v.Pointer()] = true
		if sz := v.Elem().Type().Size(); sz > 0 {
			*out = append(*out, vRange_{v.Pointer(), v.Pointer() + sz})
		}
		vCollect(v.Elem(), out, seen)
	case reflect.Interface:
		if !v.IsNil() {
			vCollect(v.Elem(), out, seen)
		}
	case reflect.Struct:
		for i := 0; i < v.NumField(); i++ {
			vCollect(v.Field(i), out, seen)
		}
	case reflect.Slice:
		if v.Cap() == 0 {
			return
		}
		esz := v.Type().Elem().Size()
		if esz > 0 { // the spare capacity belongs to the slice as well: an append writes there
			*out = append(*out, vRange_{v.Pointer(), v.Pointer() + esz*uintptr(v.Cap())})
		}
		for i := 0; i < v.Len(); i++ {
			vCollect(v.Index(i), out, seen)
		}
	case reflect.Array:
		for i := 0; i < v.Len(); i++ {
			vCollect(v.Index(i), out, seen)
		}
	case reflect.Map:
		if !v.IsNil() {
			*out = append(*out, vRange_{v.Pointer(), v.Pointer() + 1})
		}
	}
}

// vAliased: do the object graphs of a and b share any mutable memory?
func vAliased(a, b any) bool {
	var ra, rb []vRange_
	vCollect(reflect.ValueOf(a), &ra, map[uintptr]bool{})
	vCollect(reflect.ValueOf(b), &rb, map[uintptr]bool{})
	for _, x := range ra {
		for _, y := range rb {
			if x.lo < y.hi && y.lo < x.hi {
				return true
			}
		}
	}
	return false
}

// ---------- crypto seam: reference digests (engine: ideal-hash stub; native: the real primitive) ----------

func vHashNew(alg string) func() hash.Hash {
	switch alg {
	case "sha1":
		return sha1.New
	case "sha224":
		return sha256.New224
	case "sha256":
		return sha256.New
	case "sha384":
		return sha512.New384
	case "sha512":
		return sha512.New
	}
	panic("vHash: unknown algorithm " + alg)
}

// vHash returns the digest of data under the named hash.
func vHash(alg string, data []byte) []byte {
	h := vHashNew(alg)()
	h.Write(data)
	return h.Sum(nil)
}

// vHMAC returns the RFC 2104 MAC of data.
func vHMAC(alg string, key, data []byte) []byte {
	h := hmac.New(vHashNew(alg), key)
	h.Write(data)
	return h.Sum(nil)
}
