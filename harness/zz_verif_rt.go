package dns

// Harness runtime: nondeterministic inputs, assumptions and assertions.
//
// Under the symbolic engine (symgo) every function in this file is intercepted by name
// and the bodies below are not executed. Compiled natively (replay of a solver model
// against the real build, translator self-test) the bodies read the inputs from
// vInputs and record what happened.

import (
	"fmt"
	"strings"
)

var (
	vInputs  = map[string]uint64{}
	vParams  = map[string]int{}
	vFailed  []string // ids of failed assertions, in order
	vFinding []string // finding ids of failed in-region assertions
	vObs     []string
	vReached = map[string]int{}
	vUsed    = map[string]bool{}
)

type vStop struct{ why string }

var vHarnesses = map[string]func(){}

func vRegister(name string, f func()) { vHarnesses[name] = f }

func vIn(n string) uint64 {
	vUsed[n] = true
	return vInputs[n]
}

func vU8(n string) uint8   { return uint8(vIn(n)) }
func vU16(n string) uint16 { return uint16(vIn(n)) }
func vU32(n string) uint32 { return uint32(vIn(n)) }
func vU64(n string) uint64 { return vIn(n) }
func vBool(n string) bool  { return vIn(n)&1 != 0 }

// vRange returns an integer lo <= x <= hi.
func vRange(n string, lo, hi int) int {
	if lo == hi {
		return lo
	}
	x := int(vIn(n))
	if x < lo || x > hi {
		panic(vStop{"infeasible"})
	}
	return x
}

// vChoice returns a concrete value 0..k-1 (the engine enumerates all of them).
func vChoice(n string, k int) int {
	v := int(vIn("#" + n))
	if v >= k {
		v = 0
	}
	return v
}

// vBytes returns k octets n.0 .. n.(k-1).
func vBytes(n string, k int) []byte {
	b := make([]byte, k)
	for i := range b {
		b[i] = uint8(vIn(fmt.Sprintf("%s.%d", n, i)))
	}
	return b
}

func vAssume(c bool) {
	if !c {
		panic(vStop{"infeasible"})
	}
}

// vAssert is a proof obligation: on every path, for all values of the symbolic inputs.
func vAssert(c bool, id string) {
	if !c {
		vFailed = append(vFailed, id)
		vFinding = append(vFinding, "")
		panic(vStop{"assert"})
	}
}

// vAssertExcept: c must hold outside region; inside region a failure is the named finding.
func vAssertExcept(c bool, id string, region bool, finding string) {
	if !c {
		vFailed = append(vFailed, id)
		if region {
			vFinding = append(vFinding, finding)
		} else {
			vFinding = append(vFinding, "")
		}
		panic(vStop{"assert"})
	}
}

func vReach(id string) { vReached[id]++ }

// vObserve records values for the translator self-test (engine and native must agree).
func vObserve(tag string, xs ...any) {
	var sb strings.Builder
	sb.WriteString(tag)
	for _, x := range xs {
		sb.WriteByte(' ')
		switch x := x.(type) {
		case nil:
			sb.WriteString("nil")
		case string:
			fmt.Fprintf(&sb, "%x", []byte(x))
		case []byte:
			fmt.Fprintf(&sb, "%x", x)
		case error:
			if x == nil {
				sb.WriteString("nil")
			} else {
				sb.WriteString("non-nil")
			}
		case bool, int, int8, int16, int32, int64, uint, uint8, uint16, uint32, uint64:
			fmt.Fprint(&sb, x)
		default:
			sb.WriteString("non-nil")
		}
	}
	vObs = append(vObs, sb.String())
}

func vSteps() int      { return 0 }
func vAllocBytes() int { return 0 }
func vSymbolic() bool  { return false }

// vParam returns a bound chosen by the check's tier (engine: -params; native: replay file).
func vParam(name string, def int) int {
	if v, ok := vParams[name]; ok {
		return v
	}
	return def
}

func vNow() int64 { return int64(vIn("now")) }

// vConcretize asks the engine to fork over all feasible values of x.
func vConcretize(x int) int { return x }
