package dns

func init() {
	vRegister("H_C01_record", H_C01_record)
	vRegister("H_C01_unknown", H_C01_unknown)
	vRegister("H_C01_octetstrings", H_C01_octetstrings)
	vRegister("H_C01_header", H_C01_header)
	vRegister("H_C01_vacuity", H_C01_vacuity)
}

// vPickType: one of the layout-covered registry types (enumerated by forking).
func vPickType() uint16 {
	only := vParam("gen.onlytype", 0)
	if only != 0 {
		return uint16(only)
	}
	n := len(vTypesSimple)
	if vParam("gen.nosvcbapl", 0) == 1 {
		// stated bound: SVCB, HTTPS and APL (the last three entries) are left to harnesses of their own where the
		// text round trip through the zone parser makes the full battery too expensive for them
		n -= 3
	}
	t := vTypesSimple[vChoice("type", n)]
	if vParam("gen.skipslow", 0) == 1 && (t == TypeNSEC3 || t == TypeHIP) {
		// stated bound: these two types make the two-record comparison queries too hard for the solver
		vAssume(false)
	}
	return t
}

// H_C01_octetstrings: the record battery for the types that hold text with arbitrary octets (run with gen.anystr=1:
// quotes, backslashes, blanks, NUL, non-ASCII in character-strings and in URI targets / CAA values).
func H_C01_octetstrings() {
	ts := []uint16{TypeURI, TypeCAA, TypeTXT, TypeHINFO, TypeNAPTR, TypeX25}
	vC01Record(ts[vChoice("otype", len(ts))])
}

// H_C01_record: for every registry type with a layout entry: pack(record) is exactly the RFC
// layout of its fields, unpack(layout) yields those fields, and re-packing reproduces the octets.
func H_C01_record() { vC01Record(vPickType()) }

func vC01Record(t uint16) {
	rr, w, g := vBuildRR("r.", t)
	if rr == nil {
		vAssert(false, "type-has-layout")
		return
	}
	class, ttl := rr.Header().Class, rr.Header().Ttl
	vReach("built")
	buf := make([]byte, len(w)+8)
	off, err := PackRR(rr, buf, 0, nil, false)
	vObserve("pack", t, off, err, buf[:min(off, len(buf))])
	vAssert(err == nil, "pack-succeeds")
	if err != nil {
		return
	}
	vAssert(off == len(w) && refBytesEqual(buf[:off], w), "pack-equals-rfc-layout")

	rr2, off2, err2 := UnpackRR(w, 0)
	vAssert(err2 == nil && off2 == len(w), "unpack-accepts-rfc-layout")
	if err2 != nil {
		return
	}
	vAssert(vCheckRR(g, rr2, t, class, ttl), "unpack-yields-the-fields")
	buf2 := make([]byte, len(w)+8)
	off3, err3 := PackRR(rr2, buf2, 0, nil, false)
	vAssert(err3 == nil && off3 == len(w) && refBytesEqual(buf2[:off3], w), "repack-reproduces-octets")
	vAssert(int(rr2.Header().Rdlength) == len(g.wire), "rdlength-recorded")
}

// H_C01_unknown: unknown types are carried as RFC 3597 data, losslessly.
func H_C01_unknown() {
	t := vU16("t")
	vAssume(t >= 65280 && t < 65535) // private-use range: certainly not in the registry
	rr, w, g := vBuildRR("r.", t)
	class, ttl := rr.Header().Class, rr.Header().Ttl
	buf := make([]byte, len(w)+8)
	off, err := PackRR(rr, buf, 0, nil, false)
	vAssert(err == nil && off == len(w) && refBytesEqual(buf[:off], w), "pack-equals-rfc3597-layout")
	rr2, off2, err2 := UnpackRR(w, 0)
	vAssert(err2 == nil && off2 == len(w), "unpack-accepts")
	if err2 != nil {
		return
	}
	_, is3597 := rr2.(*RFC3597)
	vAssert(is3597, "unknown-type-held-as-rfc3597")
	vAssert(vCheckRR(g, rr2, t, class, ttl), "unpack-yields-the-fields")
}

// H_C01_header: all 2^16 flag/opcode words and the 12-bit RCODE split.
func H_C01_header() {
	var m Msg
	m.Id = vU16("id")
	bits := vU16("bits")
	m.Response = bits&0x8000 != 0
	m.Opcode = int(bits>>11) & 0xF
	m.Authoritative = bits&0x0400 != 0
	m.Truncated = bits&0x0200 != 0
	m.RecursionDesired = bits&0x0100 != 0
	m.RecursionAvailable = bits&0x0080 != 0
	m.Zero = bits&0x0040 != 0
	m.AuthenticatedData = bits&0x0020 != 0
	m.CheckingDisabled = bits&0x0010 != 0
	rcode := vRange("rcode", 0, 4095)
	m.Rcode = rcode
	withOpt := vChoice("opt", 2) == 1
	nq := vChoice("nq", 2)
	if nq == 1 {
		m.Question = []Question{{Name: "a.", Qtype: vU16("qt"), Qclass: vU16("qc")}}
	}
	var opt *OPT
	if withOpt {
		opt = &OPT{Hdr: RR_Header{Name: ".", Rrtype: TypeOPT, Class: vU16("udp"), Ttl: vU32("optttl")}} // stale extended-rcode bits in the TTL must be overwritten from Rcode
		m.Extra = []RR{opt}
	}
	vReach("msg-built")
	b, err := m.Pack()
	vObserve("hdr", err, b)
	if !withOpt && rcode > 15 {
		vAssert(err != nil, "extended-rcode-needs-opt")
		return
	}
	vAssert(err == nil, "pack-succeeds")
	if err != nil {
		return
	}
	vAssert(len(b) >= 12, "has-header")
	// RFC 1035 §4.1.1 header layout
	want := bits&0xFFF0 | uint16(rcode&0xF)
	vAssert(b[0] == byte(m.Id>>8) && b[1] == byte(m.Id), "id-octets")
	vAssert(b[2] == byte(want>>8) && b[3] == byte(want), "flag-octets")
	vAssert(b[4] == 0 && int(b[5]) == nq && b[6] == 0 && b[7] == 0 && b[8] == 0 && b[9] == 0 && b[10] == 0 && int(b[11]) == len(m.Extra), "section-counts")
	if withOpt {
		// OPT: root name, type 41, class = udp size, ttl = ext-rcode | version | flags
		o := 12
		if nq == 1 {
			o += 3 + 4
		}
		vAssert(len(b) == o+11, "opt-length")
		if len(b) == o+11 {
			vAssert(b[o] == 0 && b[o+1] == 0 && b[o+2] == 41, "opt-name-type")
			vAssert(b[o+5] == byte(rcode>>4), "opt-carries-upper-rcode-bits")
			vAssert(b[o+6] == byte(opt.Hdr.Ttl>>16) && b[o+7] == byte(opt.Hdr.Ttl>>8) && b[o+8] == byte(opt.Hdr.Ttl), "opt-version-flags-kept")
		}
	}
	var m2 Msg
	uerr := m2.Unpack(b)
	vAssert(uerr == nil, "unpack-succeeds")
	if uerr != nil {
		return
	}
	vAssert(m2.Id == m.Id && m2.Response == m.Response && m2.Opcode == m.Opcode && m2.Authoritative == m.Authoritative &&
		m2.Truncated == m.Truncated && m2.RecursionDesired == m.RecursionDesired && m2.RecursionAvailable == m.RecursionAvailable &&
		m2.Zero == m.Zero && m2.AuthenticatedData == m.AuthenticatedData && m2.CheckingDisabled == m.CheckingDisabled, "header-bits-restored")
	vAssert(m2.Rcode == rcode, "rcode-rejoined")
	vAssert(len(m2.Question) == nq && len(m2.Answer) == 0 && len(m2.Ns) == 0 && len(m2.Extra) == len(m.Extra), "sections-restored")
	b2, err2 := m2.Pack()
	vAssert(err2 == nil && refBytesEqual(b2, b), "repack-reproduces-octets")
}

func H_C01_vacuity() {
	rr, w, _ := vBuildRR("r.", TypeMX)
	buf := make([]byte, len(w)+8)
	off, err := PackRR(rr, buf, 0, nil, false)
	vAssume(err == nil)
	vAssert(off != len(w), "vacuity-must-fail")
}

func init() { vRegister("H_C01_opt", H_C01_opt) }

// H_C01_opt: OPT pseudo-record with every EDNS0 option kind.
func H_C01_opt() {
	opt, w, g := vBuildOPT("o.")
	vReach("opt-built")
	buf := make([]byte, len(w)+8)
	off, err := PackRR(opt, buf, 0, nil, false)
	vObserve("packopt", off, err, buf[:min(off, len(buf))])
	vAssert(err == nil, "pack-succeeds")
	if err != nil {
		return
	}
	vAssert(off == len(w) && refBytesEqual(buf[:off], w), "pack-equals-rfc-layout")
	rr2, off2, err2 := UnpackRR(w, 0)
	vAssert(err2 == nil && off2 == len(w), "unpack-accepts-rfc-layout")
	if err2 != nil {
		return
	}
	vAssert(vCheckOPT(g, rr2, opt.Hdr.Class, opt.Hdr.Ttl), "unpack-yields-the-fields")
	buf2 := make([]byte, len(w)+8)
	off3, err3 := PackRR(rr2, buf2, 0, nil, false)
	vAssert(err3 == nil && off3 == len(w) && refBytesEqual(buf2[:off3], w), "repack-reproduces-octets")
}
