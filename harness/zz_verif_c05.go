package dns

func init() {
	vRegister("H_C05_roundtrip", H_C05_roundtrip)
	vRegister("H_C05_strings", H_C05_strings)
	vRegister("H_C05_gpos", H_C05_gpos)
	vRegister("H_C05_isdn", H_C05_isdn)
	vRegister("H_C05_svcb", H_C05_svcb)
	vRegister("H_C05_svcb_strings", H_C05_svcb_strings)
	vRegister("H_C05_apl", H_C05_apl)
	vRegister("H_C05_longstr", H_C05_longstr)
	vRegister("H_C05_mnemonics", H_C05_mnemonics)
	vRegister("H_C05_generic", H_C05_generic)
	vRegister("H_C05_nopresentation", H_C05_nopresentation)
	vRegister("H_C05_vacuity", H_C05_vacuity)
}

// refMasterSyntax: an independent reading of RFC 1035 section 5.1 lexical syntax: the text consists of printable
// ASCII and tabs only; a backslash is followed by three decimal digits (value <= 255) or by one printable character;
// double quotes and parentheses are balanced; no comment starts outside a quoted string; nothing is left open at
// the end. (What the tokens mean is the parser's business; this only says that any RFC 1035 reader can split the
// text the same way.)
func refMasterSyntax(text string) bool {
	inQuote := false
	depth := 0
	for i := 0; i < len(text); i++ {
		c := text[i]
		if c != '\t' && (c < 0x20 || c > 0x7E) {
			return false
		}
		switch {
		case c == '\\':
			if i+1 >= len(text) {
				return false
			}
			n := text[i+1]
			if n >= '0' && n <= '9' {
				if i+3 >= len(text) || !(text[i+2] >= '0' && text[i+2] <= '9') || !(text[i+3] >= '0' && text[i+3] <= '9') {
					return false
				}
				if int(n-'0')*100+int(text[i+2]-'0')*10+int(text[i+3]-'0') > 255 {
					return false
				}
				i += 3
			} else {
				if n < 0x20 || n > 0x7E { // RFC 1035 5.1: \X quotes any character other than a digit - a blank included
					return false
				}
				i++
			}
		case c == '"':
			inQuote = !inQuote
		case inQuote:
		case c == ';':
			return false
		case c == '(':
			depth++
		case c == ')':
			depth--
			if depth < 0 {
				return false
			}
		}
	}
	return !inQuote && depth == 0
}

// vC05Reparse: String() of rr is accepted by the zone parser and packs to exactly w.
func vC05Reparse(rr RR, w []byte, t uint16) {
	// known findings (regions of the input space, see known_findings.json)
	noneReserved := false // a type field holding 0 or 65535 prints as "None"/"Reserved", which the parser does not read
	switch x := rr.(type) {
	case *RRSIG:
		noneReserved = x.TypeCovered == 0 || x.TypeCovered == 65535
	case *SIG:
		noneReserved = x.TypeCovered == 0 || x.TypeCovered == 65535
	}
	x25raw := false // X25 prints its PSDN address as raw text: empty or non-alphanumeric addresses do not read back
	if x, ok := rr.(*X25); ok {
		a, okA := refUnescapeTxt(x.PSDNAddress)
		x25raw = !okA || len(a) == 0
		for _, c := range a {
			if !(c >= '0' && c <= '9' || c >= 'a' && c <= 'z' || c >= 'A' && c <= 'Z') {
				x25raw = true
			}
		}
	}
	region, finding := noneReserved || x25raw, "C05-none-reserved-mnemonics"
	if x25raw {
		finding = "C05-x25-raw-text"
	}
	text := rr.String()
	vReach("printed")
	vAssertExcept(refMasterSyntax(text), "text-uses-only-rfc1035-master-file-syntax", x25raw, "C05-x25-raw-text")
	rr2, err := NewRR(text)
	vObserve("reparse", t, len(text), err)
	if vParam("debug.text", 0) == 1 {
		vObserve("text", text)
	}
	vAssertExcept(err == nil && rr2 != nil, "string-output-is-accepted-by-the-zone-parser", region, finding)
	if err != nil || rr2 == nil {
		return
	}
	h1, h2 := rr.Header(), rr2.Header()
	vAssert(h2.Rrtype == t && h2.Class == h1.Class && h2.Ttl == h1.Ttl, "same-type-class-ttl")
	buf := make([]byte, len(w)+16)
	off, perr := PackRR(rr2, buf, 0, nil, false)
	vAssert(perr == nil, "reparsed-record-packs")
	if perr != nil {
		return
	}
	vAssertExcept(off == len(w) && refBytesEqual(buf[:off], w), "same-owner-and-octet-identical-rdata", region, finding)
}

// H_C05_roundtrip: for every registry type with a presentation format: the record decoded from the RFC layout octets
// prints to text that parses back to a record with the same owner, class, TTL, type and RDATA octets.
func H_C05_roundtrip() {
	vFixNow(1700000000) // RRSIG/SIG time fields are printed relative to the clock (68-year windows)
	t := vPickType()
	// no presentation format: ANY, NULL, NXNAME, TSIG, TKEY (printed as a comment) and OPT; GPOS has its own harness
	vAssume(t != TypeANY && t != TypeNULL && t != TypeNXNAME && t != TypeTSIG && t != TypeTKEY && t != TypeGPOS)
	rr, w, _ := vBuildRR("r.", t)
	vAssume(rr != nil)
	rr1, off, err := UnpackRR(w, 0)
	vAssume(err == nil && off == len(w))
	vC05Reparse(rr1, w, t)
}

// H_C05_strings: the round trip for the types that carry character-strings, URI targets or CAA values, run with
// gen.anystr=1: every string octet ranges over all 256 values (quotes, backslashes, semicolons, parentheses, blanks,
// newlines, NUL, non-ASCII).
func H_C05_strings() {
	vFixNow(1700000000)
	ts := []uint16{TypeTXT, TypeSPF, TypeHINFO, TypeISDN, TypeURI, TypeCAA, TypeNAPTR, TypeX25, TypeAVC, TypeNINFO, TypeRESINFO, TypeUINFO}
	t := ts[vChoice("stype", len(ts))]
	rr, w, _ := vBuildRRWith("r.", t, func(g *vGen) {
		switch t { // types with one or two strings afford one octet more per string
		case TypeX25, TypeURI, TypeCAA:
			g.maxStr++
		}
	})
	vAssume(rr != nil)
	rr1, off, err := UnpackRR(w, 0)
	vAssume(err == nil && off == len(w))
	vC05Reparse(rr1, w, t)
}

// H_C05_isdn: ISDN address of the form <letter><any octet><letter> with an empty or one-octet subaddress (the parser
// splits a lone character-string at blanks, so an address containing a blank must be printed with its subaddress).
func H_C05_isdn() {
	a, m, b := vU8("a"), vU8("m"), vU8("b")
	vAssume(a >= 'a' && a <= 'z' && b >= 'a' && b <= 'z')
	w := []byte{1, vLower("l"), 0, 0, 20, 0, 1, 0, 0, 0, 60, 0, 0, 3, a, m, b}
	if vChoice("sub", 2) == 1 {
		w = append(w, 1, vU8("s"))
	} else {
		w = append(w, 0) // (the layout with the optional <sa> string left out altogether is not what Pack produces)
	}
	rd := len(w) - 13
	w[11], w[12] = byte(rd>>8), byte(rd)
	rr1, off, err := UnpackRR(w, 0)
	vAssume(err == nil && off == len(w))
	vC05Reparse(rr1, w, TypeISDN)
}

// H_C05_svcb / H_C05_apl: the round trip of H_C05_roundtrip for SVCB and APL alone (gen.onlytype), with small sizes.
func H_C05_svcb() { H_C05_roundtrip() }
func H_C05_apl()  { H_C05_roundtrip() }

// H_C05_svcb_strings: SVCB with arbitrary octets (gen.anystr) in alpn ids, dohpath and private-use values.
func H_C05_svcb_strings() { H_C05_roundtrip() }

// H_C05_longstr: character-strings at and around the 255-octet limit (TXT and SPF): one octet at the first,
// a middle or the last position is arbitrary (so it may need an escape), the others are letters; a second string
// may follow. The printed text must read back to octet-identical RDATA (in particular: not be split differently).
func H_C05_longstr() {
	t := []uint16{TypeTXT, TypeSPF}[vChoice("t", 2)]
	n := []int{254, 255}[vChoice("n", 2)]
	str := make([]byte, n)
	for i := range str {
		str[i] = 'a' + byte(i%26)
	}
	pos := []int{0, 100, n - 1}[vChoice("pos", 3)]
	str[pos] = vU8("x")
	w := []byte{1, vLower("l"), 0, byte(t >> 8), byte(t), 0, 1, 0, 0, 0, 60, 0, 0, byte(n)}
	w = append(w, str...)
	if vChoice("second", 2) == 1 {
		w = append(w, 1, vLower("y"))
	}
	rd := len(w) - 13
	w[11], w[12] = byte(rd>>8), byte(rd)
	rr1, off, err := UnpackRR(w, 0)
	vAssume(err == nil && off == len(w))
	vC05Reparse(rr1, w, t)
}

// H_C05_gpos: GPOS holds three numeric text fields (RFC 1712); records with such fields read back.
func H_C05_gpos() {
	vals := []string{"0", "-32.5", "180.000", "89.9", "10"}
	g := &GPOS{Hdr: RR_Header{Name: string([]byte{vLower("l")}) + ".ex.", Rrtype: TypeGPOS, Class: ClassINET, Ttl: 60}}
	g.Longitude, g.Latitude, g.Altitude = vals[vChoice("lon", 5)], vals[vChoice("lat", 5)], vals[vChoice("alt", 5)]
	buf := make([]byte, 128)
	off, err := PackRR(g, buf, 0, nil, false)
	vAssume(err == nil)
	rr1, _, uerr := UnpackRR(buf[:off], 0)
	vAssume(uerr == nil)
	vC05Reparse(rr1, buf[:off], TypeGPOS)
}

// H_C05_mnemonics: TYPEnnn / CLASSnnn read as nnn for every decimal spelling (digits symbolic), every mnemonic in the
// tables reads back as its code point through the zone parser, and code points without mnemonic print as TYPEnnn.
func H_C05_mnemonics() {
	switch vChoice("what", 4) {
	case 0, 1: // TYPEnnn / CLASSnnn with 1..5 symbolic digits, no leading zero
		nd := 1 + vChoice("digits", 5)
		var ds []byte
		val := uint32(0)
		for i := 0; i < nd; i++ {
			d := vDigit("d" + vItoa(i))
			ds = append(ds, d)
			val = val*10 + uint32(d-'0')
		}
		vAssume(nd == 1 || ds[0] != '0')
		vReach("mnemonic")
		if vChoice("what2", 2) == 0 {
			got, ok := typeToInt("TYPE" + string(ds))
			vAssert(ok == (val <= 65535) && (!ok || uint32(got) == val), "TYPEnnn-reads-as-nnn")
		} else {
			got, ok := classToInt("CLASS" + string(ds))
			vAssert(ok == (val <= 65535) && (!ok || uint32(got) == val), "CLASSnnn-reads-as-nnn")
		}
	case 2: // every type mnemonic, through the zone parser, in the generic form
		var codes []uint16
		for c := range TypeToString {
			codes = append(codes, c)
		}
		for i := range codes { // deterministic order
			for j := i + 1; j < len(codes); j++ {
				if codes[j] < codes[i] {
					codes[i], codes[j] = codes[j], codes[i]
				}
			}
		}
		c := codes[vChoice("mn", len(codes))]
		vReach("mnemonic")
		switch c { // query types and meta records never appear in master files and are refused outright
		case TypeTSIG, TypeOPT, TypeANY, TypeAXFR, TypeIXFR, TypeMAILA, TypeMAILB:
			return
		}
		name := TypeToString[c]
		rr, err := NewRR(string([]byte{vLower("l")}) + ". 60 IN " + name + " \\# 0")
		region := c == TypeNone || c == TypeReserved
		vAssertExcept(err == nil && rr != nil && rr.Header().Rrtype == c, "type-mnemonic-reads-back-as-its-code-point", region, "C05-none-reserved-mnemonics")
		vAssert(Type(c).String() == name, "type-prints-as-its-mnemonic")
	default: // code points without mnemonic print as TYPEnnn / CLASSnnn
		c := []uint16{0, 1, 255, 256, 4095, 32767, 65280, 65534, 65535}[vChoice("code", 9)]
		vReach("mnemonic")
		if _, has := TypeToString[c]; !has {
			vAssert(Type(c).String() == "TYPE"+vItoa(int(c)), "type-without-mnemonic-prints-as-TYPEnnn")
		}
		if _, has := ClassToString[c]; !has {
			vAssert(Class(c).String() == "CLASS"+vItoa(int(c)), "class-without-mnemonic-prints-as-CLASSnnn")
		}
	}
}

// H_C05_generic: a record written in the RFC 3597 generic form (\# length hex) under its mnemonic or TYPEnnn parses to
// the same record (same RDATA octets) as the typed form.
func H_C05_generic() {
	t := vPickType()
	vAssume(t != TypeTSIG && t != TypeANY) // meta/query types never appear in master files; the parser refuses their mnemonics outright
	rr, w, g := vBuildRR("r.", t)
	vAssume(rr != nil)
	owner, _ := refEscapeName(g.exp[len(g.exp)-1].labels)
	tname := "TYPE" + vItoa(int(t))
	if vChoice("mnemonic", 2) == 1 {
		tname = Type(t).String()
	}
	text := owner + " " + vItoa(int(rr.Header().Ttl)) + " CLASS" + vItoa(int(rr.Header().Class)) + " " + tname + " \\# " + vItoa(len(g.wire)) + " " + refHex(g.wire)
	vReach("generic")
	rr2, err := NewRR(text)
	vObserve("generic", t, err)
	vAssert(err == nil && rr2 != nil, "generic-form-is-accepted")
	if err != nil || rr2 == nil {
		return
	}
	buf := make([]byte, len(w)+16)
	off, perr := PackRR(rr2, buf, 0, nil, false)
	vAssert(perr == nil && off == len(w) && refBytesEqual(buf[:off], w), "generic-form-yields-the-same-octets")
	vAssert(rr2.Header().Rrtype == t, "generic-form-yields-the-same-type")
}

// H_C05_nopresentation: types without a presentation format are refused by the parser rather than read as something else.
func H_C05_nopresentation() {
	t := []uint16{TypeOPT, TypeTSIG, TypeANY, TypeAXFR, TypeIXFR}[vChoice("t", 5)]
	c := vU8("c")
	vAssume(c >= 'a' && c <= 'z')
	_, err := NewRR(string([]byte{c}) + ". 60 IN " + Type(t).String() + " x")
	vReach("refused")
	vAssert(err != nil, "type-without-presentation-format-is-refused")
}

func H_C05_vacuity() {
	t := vPickType()
	rr, _, _ := vBuildRR("r.", t)
	vAssert(rr == nil, "vacuity-twin")
}
