package dns

func init() {
	vRegister("H_C05_roundtrip", H_C05_roundtrip)
	vRegister("H_C05_mnemonics", H_C05_mnemonics)
	vRegister("H_C05_generic", H_C05_generic)
	vRegister("H_C05_nopresentation", H_C05_nopresentation)
	vRegister("H_C05_vacuity", H_C05_vacuity)
}

// vC05Reparse: String() of rr is accepted by the zone parser and packs to exactly w.
func vC05Reparse(rr RR, w []byte, t uint16) {
	text := rr.String()
	vReach("printed")
	rr2, err := NewRR(text)
	vObserve("reparse", t, len(text), err)
	vAssert(err == nil && rr2 != nil, "string-output-is-accepted-by-the-zone-parser")
	if err != nil || rr2 == nil {
		return
	}
	h1, h2 := rr.Header(), rr2.Header()
	vAssert(h2.Rrtype == t && h2.Class == h1.Class && h2.Ttl == h1.Ttl, "same-type-class-ttl")
	buf := make([]byte, len(w)+16)
	off, perr := PackRR(rr2, buf, 0, nil, false)
	vAssert(perr == nil, "reparsed-record-packs")
	if perr != nil {
		return
	}
	vAssert(off == len(w) && refBytesEqual(buf[:off], w), "same-owner-and-octet-identical-rdata")
}

// H_C05_roundtrip: for every registry type with a presentation format: the record decoded from the RFC layout octets
// prints to text that parses back to a record with the same owner, class, TTL, type and RDATA octets.
func H_C05_roundtrip() {
	t := vPickType()
	rr, w, _ := vBuildRR("r.", t)
	vAssume(rr != nil)
	// class: a zone file entry is read in a class with a mnemonic or CLASSnnn; TTL: 32 bits
	rr1, off, err := UnpackRR(w, 0)
	vAssume(err == nil && off == len(w))
	vC05Reparse(rr1, w, t)
}

// H_C05_mnemonics: every type and class code point, written as TYPEnnn / CLASSnnn or by its mnemonic, reads back as
// that code point.
func H_C05_mnemonics() {
	code := vU16("code")
	if vChoice("what", 2) == 0 {
		s := Type(code).String()
		got, ok := StringToType[s]
		if !ok {
			// not a mnemonic: must be TYPEnnn, which the parser's typeToInt reads
			v, ok2 := typeToInt(s)
			vAssert(ok2 && v == code, "type-prints-as-mnemonic-or-TYPEnnn")
		} else {
			vAssert(got == code, "type-mnemonic-reads-back")
		}
		v, ok3 := typeToInt("TYPE" + vItoa(int(code)))
		vAssert(ok3 && v == code, "TYPEnnn-reads-as-nnn")
	} else {
		s := Class(code).String()
		got, ok := StringToClass[s]
		if !ok {
			v, ok2 := classToInt(s)
			vAssert(ok2 && v == code, "class-prints-as-mnemonic-or-CLASSnnn")
		} else {
			vAssert(got == code, "class-mnemonic-reads-back")
		}
		v, ok3 := classToInt("CLASS" + vItoa(int(code)))
		vAssert(ok3 && v == code, "CLASSnnn-reads-as-nnn")
	}
	vReach("mnemonic")
}

// H_C05_generic: a record written in the RFC 3597 generic form (\# length hex) under its mnemonic or TYPEnnn parses to
// the same record (same RDATA octets) as the typed form.
func H_C05_generic() {
	t := vPickType()
	rr, w, g := vBuildRR("r.", t)
	vAssume(rr != nil)
	owner, _ := refEscapeName(g.exp[len(g.exp)-1].labels)
	tname := "TYPE" + vItoa(int(t))
	if vChoice("mnemonic", 2) == 1 {
		tname = Type(t).String()
	}
	text := owner + " " + vItoa(int(rr.Header().Ttl)) + " CLASS" + vItoa(int(rr.Header().Class)) + " " + tname + " \\# " + vItoa(len(g.wire)) + " " + refHex(g.wire)
	vReach("generic")
	rr2, err := NewRR(text)
	vObserve("generic", t, err)
	vAssert(err == nil && rr2 != nil, "generic-form-is-accepted")
	if err != nil || rr2 == nil {
		return
	}
	buf := make([]byte, len(w)+16)
	off, perr := PackRR(rr2, buf, 0, nil, false)
	vAssert(perr == nil && off == len(w) && refBytesEqual(buf[:off], w), "generic-form-yields-the-same-octets")
	vAssert(rr2.Header().Rrtype == t, "generic-form-yields-the-same-type")
}

// H_C05_nopresentation: types without a presentation format are refused by the parser rather than read as something else.
func H_C05_nopresentation() {
	t := []uint16{TypeOPT, TypeTSIG, TypeANY, TypeAXFR, TypeIXFR}[vChoice("t", 5)]
	c := vU8("c")
	vAssume(c >= 'a' && c <= 'z')
	_, err := NewRR(string([]byte{c}) + ". 60 IN " + Type(t).String() + " x")
	vReach("refused")
	vAssert(err != nil, "type-without-presentation-format-is-refused")
}

func H_C05_vacuity() {
	t := vPickType()
	rr, _, _ := vBuildRR("r.", t)
	vAssert(rr == nil, "vacuity-twin")
}
