package dns

func init() { vRegister("H_C00_smoke", H_C00_smoke) }

// H_C00_smoke: engine smoke test (not a property).
func H_C00_smoke() {
	b := vU8("b")
	x := int(b)*2 + 1
	if b > 100 {
		vAssert(x > 201, "big")
	} else {
		vAssert(x <= 201, "small")
	}
	s := Fqdn("example")
	vAssert(s == "example.", "fqdn")
	vAssert(TypeToString[TypeA] == "A", "init-map")
	vAssert(StringToType["MX"] == TypeMX, "init-rev")
	vAssert(x != 77, "should-fail")
}
