package dns

import "time"

func init() {
	vRegister("H_C17_keytag", H_C17_keytag)
	vRegister("H_C17_ds", H_C17_ds)
	vRegister("H_C17_hashname", H_C17_hashname)
	vRegister("H_C17_cover", H_C17_cover)
	vRegister("H_C17_validity", H_C17_validity)
	vRegister("H_C17_vacuity", H_C17_vacuity)
}

// vKeyOctets: n key octets, one of them (every position in turn) symbolic, the rest fixed.
func vKeyOctets(maxN int) []byte {
	n := vChoice("keylen", maxN+1)
	b := make([]byte, n)
	for i := range b {
		b[i] = byte(0x5B + 0x4D*i)
	}
	if n > 0 {
		b[vChoice("keypos", n)] = vU8("keyoctet")
	}
	return b
}

// refKeyTag: RFC 4034 Appendix B (algorithms other than 1).
func refKeyTag(rdata []byte) uint16 {
	var ac uint32
	for i, c := range rdata {
		if i&1 == 1 {
			ac += uint32(c)
		} else {
			ac += uint32(c) << 8
		}
	}
	ac += (ac >> 16) & 0xFFFF
	return uint16(ac & 0xFFFF)
}

func vDNSKEY(owner string) (*DNSKEY, []byte) {
	flags, proto, alg := vU16("flags"), vU8("proto"), vU8("alg")
	key := vKeyOctets(vParam("C17.key", 6))
	k := &DNSKEY{Hdr: RR_Header{Name: owner, Rrtype: TypeDNSKEY, Class: ClassINET, Ttl: 3600}, Flags: flags, Protocol: proto, Algorithm: alg, PublicKey: refBase64(key)}
	rdata := append([]byte{byte(flags >> 8), byte(flags), proto, alg}, key...)
	return k, rdata
}

// H_C17_keytag: KeyTag equals RFC 4034 App. B for every flags/protocol/algorithm(!=1) and key.
func H_C17_keytag() {
	k, rdata := vDNSKEY("example.")
	vAssume(k.Algorithm != RSAMD5)
	vReach("key-built")
	got := k.KeyTag()
	vObserve("keytag", got)
	vAssert(got == refKeyTag(rdata), "keytag-is-rfc4034-appendix-b")
}

// H_C17_ds: the DS digest is the digest of canonical-owner-wire || DNSKEY RDATA; owner case is irrelevant.
func H_C17_ds() {
	a, b := vU8("oa"), vU8("ob")
	vAssume((a >= 'a' && a <= 'z' || a >= 'A' && a <= 'Z') && (b >= 'a' && b <= 'z' || b >= 'A' && b <= 'Z'))
	owner := string([]byte{a, b, '.', 'e', 'X', '.'})
	k, rdata := vDNSKEY(owner)
	vAssume(k.Algorithm != RSAMD5)
	var dt uint8
	alg := ""
	switch vChoice("digesttype", 4) {
	case 0:
		dt, alg = SHA1, "sha1"
	case 1:
		dt, alg = SHA256, "sha256"
	case 2:
		dt, alg = SHA384, "sha384"
	default:
		dt = vU8("otherdt")
		vAssume(dt != SHA1 && dt != SHA256 && dt != SHA384 && dt != SHA512)
	}
	ds := k.ToDS(dt)
	vReach("ds-built")
	if alg == "" {
		vAssert(ds == nil, "unsupported-digest-type-gives-nil")
		return
	}
	vAssert(ds != nil, "ds-produced")
	if ds == nil {
		return
	}
	input := []byte{2, refLowerByte(a), refLowerByte(b), 2, 'e', 'x', 0}
	input = append(input, rdata...)
	want := refHex(vHash(alg, input))
	vObserve("ds", len(ds.Digest)) // (digest values differ between the ideal-hash stub and the real primitive)
	vAssert(ds.Digest == want, "digest-over-canonical-owner-and-rdata")
	vAssert(ds.KeyTag == refKeyTag(rdata) && ds.Algorithm == k.Algorithm && ds.DigestType == dt, "ds-fields")
}

// H_C17_hashname: RFC 5155 §5: IH(salt, x, 0) = H(x || salt), IH(salt, x, k) = H(IH(salt, x, k-1) || salt),
// x the lower-cased wire name; result in base32hex.
func H_C17_hashname() {
	a, b := vU8("la"), vU8("lb")
	vAssume((a >= 'a' && a <= 'z' || a >= 'A' && a <= 'Z') && (b >= 'a' && b <= 'z' || b >= 'A' && b <= 'Z'))
	name := string([]byte{a, '.', b, 'Z', '.'})
	saltLen := vChoice("saltlen", 3)
	salt := vBytes("salt", saltLen)
	iter := vChoice("iter", vParam("C17.iter", 2)+1)
	got := HashName(name, SHA1, uint16(iter), refHex(salt))
	vReach("hashed")
	x := []byte{1, refLowerByte(a), 2, refLowerByte(b), 'z', 0}
	d := vHash("sha1", append(append([]byte{}, x...), salt...))
	for k := 0; k < iter; k++ {
		d = vHash("sha1", append(append([]byte{}, d...), salt...))
	}
	vObserve("hashname", len(got))
	vAssert(len(got) == 32, "hash-is-32-base32-digits")
	vAssert(got == refBase32Hex(d), "hashname-is-rfc5155-iterated-salted-sha1")
	vAssert(HashName(name, SHA1+1, uint16(iter), "") == "", "unknown-hash-algorithm-gives-empty")
}

// H_C17_cover: Match <=> hash equals owner hash; Cover <=> hash strictly inside (owner, next) in
// circular order; both only for names inside the record's zone.
func H_C17_cover() {
	oc, nc := vU8("ownerdigit"), vU8("nextdigit")
	isB32 := func(c byte) bool { return c >= '0' && c <= '9' || c >= 'A' && c <= 'V' }
	vAssume(isB32(oc) && isB32(nc))
	zone := "example."
	where := vChoice("where", 4)
	inside := where == 1 || where == 3
	// the name is concrete so that its hash is the real SHA-1 digest in the engine as well as natively;
	// the owner and next hashes move around it symbolically (first base32 digit)
	name := "a." + zone
	switch where {
	case 0:
		name = "a.other."
	case 2:
		name = "a.notexample." // ends with the zone's text but not on a label boundary: outside
	case 3:
		name = "A.eXample." // inside: comparison ignores case
	}
	nh0 := HashName(name, SHA1, 0, "")
	vAssume(len(nh0) == 32)
	ownerHash := string([]byte{oc}) + nh0[1:]
	nextHash := string([]byte{nc}) + nh0[1:]
	rr := &NSEC3{Hdr: RR_Header{Name: ownerHash + "." + zone, Rrtype: TypeNSEC3, Class: ClassINET}, Hash: SHA1, Iterations: 0, Salt: "", HashLength: 20, NextDomain: nextHash}
	nh := HashName(name, SHA1, 0, "") // checked against RFC 5155 by H_C17_hashname
	vAssume(len(nh) == 32)
	vReach("nsec3-built")
	match, cover := rr.Match(name), rr.Cover(name)
	vObserve("nsec3", inside, match, cover)
	wantMatch := inside && nh == ownerHash
	var between bool
	switch {
	case ownerHash == nextHash: // single-record chain: everything but the owner itself
		between = nh != ownerHash
	case ownerHash < nextHash:
		between = ownerHash < nh && nh < nextHash
	default: // wraps around the end of the hash space
		between = nh > ownerHash || nh < nextHash
	}
	wantCover := inside && between
	vAssert(match == wantMatch, "match-iff-hash-equals-owner-hash")
	vAssertExcept(cover == wantCover, "cover-iff-strictly-inside-interval", inside && nh == ownerHash && ownerHash < nextHash, "C17-cover-equal-owner")
}

// H_C17_validity: for t within 2^31 s of both inception and expiration: valid <=> inception <= t <= expiration.
// (Times are plain second counts; the 32-bit wrap of the fields past 2106 is not part of the claim.)
func H_C17_validity() {
	inc, exp := vU32("inc"), vU32("exp")
	t := int64(vU64("t"))
	vAssume(t-int64(inc) < 1<<31 && int64(inc)-t < 1<<31 && t-int64(exp) < 1<<31 && int64(exp)-t < 1<<31)
	vAssume(t > -(1<<32) && t < 1<<33)
	rr := &RRSIG{Inception: inc, Expiration: exp}
	got := rr.ValidityPeriod(time.Unix(t, 0))
	vReach("validity-checked")
	vObserve("validity", got)
	vAssert(got == (int64(inc) <= t && t <= int64(exp)), "valid-iff-inception-le-t-le-expiration")
}

func H_C17_vacuity() {
	k, _ := vDNSKEY("example.")
	vAssert(k.KeyTag() != 1234, "vacuity-must-fail")
}
