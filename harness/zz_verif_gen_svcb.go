package dns

// SVCB / HTTPS (RFC 9460 §2.2: priority, target name (never compressed), SvcParams {u16 key, u16 len, value} with
// strictly increasing keys; value formats per RFC 9460 §7, RFC 9461 (dohpath), RFC 9540 (ohttp)) and APL
// (RFC 3123 §4: {u16 family, u8 prefix, u8 N|afdlen, afd without trailing zero octets}*) for the generator.

import "net"

// the parameter sets drawn: every registered key occurs, keys strictly increasing, a mandatory list names keys that
// are present (RFC 9460 §8)
var vSvcbShapes = [][]uint16{
	{},
	{1},
	{0, 1, 3},
	{1, 2},
	{3, 4, 6},
	{5, 7},
	{8, 65280},
	{0, 4},
	{7},
	{65280},
}

var vSvcbMandatory = map[int][]uint16{2: {1, 3}, 7: {4}}

// Bytes1: raw octets held as []byte and presented as base64 (one symbolic octet among fixed ones, see blob1)
func (g *vGen) Bytes1(p *[]byte) {
	if !g.check {
		b := g.blob1(1 + g.choice(g.nm()+"b1", g.maxBlob))
		*p = append([]byte(nil), b...)
		g.wire = append(g.wire, b...)
		g.rec(vField{b: b})
		return
	}
	f := g.next()
	if !refBytesEqual(*p, f.b) {
		g.fail("bytes1")
	}
}

// TextRaw: textual octets held raw in a Go string (alpn ids, dohpath templates); min octets at least
func (g *vGen) TextRaw(p *string, min int) {
	if !g.check {
		k := min + g.choice(g.nm()+"tl", g.maxStr+1-min)
		if g.maxStr < min {
			k = min
		}
		b := g.strOctets(k)
		*p = string(b)
		g.rec(vField{b: b})
		return
	}
	f := g.next()
	if !refBytesEqual([]byte(*p), f.b) {
		g.fail("textraw")
	}
}

func vNewSvcbKV(key uint16) SVCBKeyValue {
	switch SVCBKey(key) {
	case SVCB_MANDATORY:
		return new(SVCBMandatory)
	case SVCB_ALPN:
		return new(SVCBAlpn)
	case SVCB_NO_DEFAULT_ALPN:
		return new(SVCBNoDefaultAlpn)
	case SVCB_PORT:
		return new(SVCBPort)
	case SVCB_IPV4HINT:
		return new(SVCBIPv4Hint)
	case SVCB_ECHCONFIG:
		return new(SVCBECHConfig)
	case SVCB_IPV6HINT:
		return new(SVCBIPv6Hint)
	case SVCB_DOHPATH:
		return new(SVCBDoHPath)
	case SVCB_OHTTP:
		return new(SVCBOhttp)
	}
	return &SVCBLocal{KeyCode: SVCBKey(key)}
}

func (g *vGen) svcbValue(kv SVCBKeyValue, shape int) bool {
	switch x := kv.(type) {
	case *SVCBMandatory:
		if !g.check {
			var kb []byte
			for _, k := range vSvcbMandatory[shape] {
				x.Code = append(x.Code, SVCBKey(k))
				kb = append(kb, byte(k>>8), byte(k))
			}
			g.wire = append(g.wire, kb...)
			g.rec(vField{b: kb})
		} else {
			f := g.next()
			var kb []byte
			for _, k := range x.Code {
				kb = append(kb, byte(k>>8), byte(k))
			}
			if !refBytesEqual(kb, f.b) {
				g.fail("mandatory-keys")
			}
		}
	case *SVCBAlpn:
		if !g.check {
			n := 1 + g.choice(g.nm()+"an", g.maxList)
			x.Alpn = make([]string, n)
			for i := range x.Alpn {
				mark := len(g.wire)
				g.wire = append(g.wire, 0)
				g.TextRaw(&x.Alpn[i], 1)
				g.wire = append(g.wire, x.Alpn[i]...)
				g.wire[mark] = byte(len(x.Alpn[i]))
			}
			g.rec(vField{u: uint64(n)})
		} else {
			for i := range x.Alpn {
				g.TextRaw(&x.Alpn[i], 1)
			}
			if f := g.next(); int(f.u) != len(x.Alpn) {
				g.fail("alpn-count")
			}
		}
	case *SVCBNoDefaultAlpn, *SVCBOhttp:
	case *SVCBPort:
		g.U16(&x.Port)
	case *SVCBIPv4Hint:
		if !g.check {
			n := 1 + g.choice(g.nm()+"h4", g.maxList)
			x.Hint = make([]net.IP, n)
			for i := range x.Hint {
				g.IP(&x.Hint[i], 4)
			}
			g.rec(vField{u: uint64(n)})
		} else {
			for i := range x.Hint {
				g.IP(&x.Hint[i], 4)
			}
			if f := g.next(); int(f.u) != len(x.Hint) {
				g.fail("ipv4hint-count")
			}
		}
	case *SVCBIPv6Hint:
		if !g.check {
			n := 1 + g.choice(g.nm()+"h6", g.maxList)
			x.Hint = make([]net.IP, n)
			for i := range x.Hint {
				g.IP(&x.Hint[i], 16)
				// stated: IPv4-mapped addresses (::ffff:a.b.c.d) are refused as ipv6hint by the library's packer,
				// unpacker and parser alike (svcb.go), so they are not "well-formed" ipv6hint values here
				h := x.Hint[i]
				mapped := h[10] == 0xff && h[11] == 0xff
				for j := 0; j < 10; j++ {
					mapped = mapped && h[j] == 0
				}
				vAssume(!mapped)
			}
			g.rec(vField{u: uint64(n)})
		} else {
			for i := range x.Hint {
				g.IP(&x.Hint[i], 16)
			}
			if f := g.next(); int(f.u) != len(x.Hint) {
				g.fail("ipv6hint-count")
			}
		}
	case *SVCBECHConfig:
		g.Bytes1(&x.ECH)
	case *SVCBDoHPath:
		if !g.check {
			g.TextRaw(&x.Template, 1)
			g.wire = append(g.wire, x.Template...)
		} else {
			g.TextRaw(&x.Template, 1)
		}
	case *SVCBLocal:
		if !g.check {
			k := g.choice(g.nm()+"ll", g.maxStr+1)
			b := g.strOctets(k)
			x.Data = append([]byte(nil), b...)
			g.wire = append(g.wire, b...)
			g.rec(vField{b: b})
		} else {
			f := g.next()
			if !refBytesEqual(x.Data, f.b) {
				g.fail("svcb-local")
			}
		}
	default:
		return false
	}
	return true
}

func (g *vGen) svcb(x *SVCB) {
	g.U16(&x.Priority)
	g.Name(&x.Target, false)
	if !g.check {
		shape := g.choice(g.nm()+"svshape", len(vSvcbShapes))
		for _, key := range vSvcbShapes[shape] {
			kv := vNewSvcbKV(key)
			hdr := len(g.wire)
			g.wire = append(g.wire, byte(key>>8), byte(key), 0, 0)
			g.rec(vField{u: uint64(key)})
			g.svcbValue(kv, shape)
			dl := len(g.wire) - hdr - 4
			g.wire[hdr+2], g.wire[hdr+3] = byte(dl>>8), byte(dl)
			x.Value = append(x.Value, kv)
		}
		g.rec(vField{u: uint64(len(vSvcbShapes[shape]))})
		return
	}
	for _, kv := range x.Value {
		f := g.next()
		if uint64(kv.Key()) != f.u {
			g.fail("svcb-key")
			return
		}
		if !g.svcbValue(kv, 0) {
			g.fail("svcb-kind")
			return
		}
	}
	if f := g.next(); int(f.u) != len(x.Value) {
		g.fail("svcb-count")
	}
}

// APL: 0..maxList items; family 1 or 2, prefix from a menu, N bit symbolic, address octets symbolic with the bits
// beyond the prefix zero and the last significant octet non-zero (so that the trailing-zero trimming of RFC 3123
// is a shape decision, not a symbolic one).
var vAplPrefixes = [][2]int{{1, 0}, {1, 8}, {1, 20}, {1, 32}, {2, 0}, {2, 12}, {2, 64}, {2, 128}}

func (g *vGen) apl(x *APL) {
	if !g.check {
		n := g.choice(g.nm()+"apn", g.maxList+1)
		x.Prefixes = make([]APLPrefix, n)
		for i := range x.Prefixes {
			fp := vAplPrefixes[g.choice(g.nm()+"apf", len(vAplPrefixes))]
			fam, prefix := fp[0], fp[1]
			alen := 4
			if fam == 2 {
				alen = 16
			}
			maxSig := (prefix + 7) / 8
			sig := 0
			if maxSig > 0 {
				// number of significant octets: the full length, or (trimmed) one or two
				menu := []int{maxSig, 0, 1}
				sig = menu[g.choice(g.nm()+"aps", 3)]
				if sig > maxSig {
					sig = maxSig
				}
			}
			neg := g.dU8()&1 == 1
			full := make([]byte, alen)
			var ab []byte
			if g.ints != 0 {
				// fixed addresses where the record is printed (printing symbolic addresses forks per digit)
				pat := []byte{0x20, 0x01, 0x0d, 0xb8, 0x85, 0xa3, 0x11, 0x12, 0x13, 0x70, 0x73, 0x34, 0x09, 0x0a, 0x0b, 0x01}
				if fam == 1 {
					pat = []byte{192, 168, 0xF2, 0x81}
				}
				ab = append([]byte{}, pat[:sig]...)
			} else {
				ab = g.octets(sig, false)
			}
			if sig > 0 {
				if sig == maxSig && prefix%8 != 0 {
					ab[sig-1] &= byte(0xFF << (8 - uint(prefix%8)))
				}
				vAssume(ab[sig-1] != 0)
			}
			copy(full, ab)
			x.Prefixes[i] = APLPrefix{Negation: neg, Network: net.IPNet{IP: net.IP(full), Mask: net.CIDRMask(prefix, 8*alen)}}
			nb := byte(sig)
			if neg {
				nb |= 0x80
			}
			g.wire = append(g.wire, 0, byte(fam), byte(prefix), nb)
			g.wire = append(g.wire, ab...)
			u := uint64(fam)<<16 | uint64(prefix)<<8
			if neg {
				u |= 1
			}
			g.rec(vField{u: u, b: full})
		}
		g.rec(vField{u: uint64(n)})
		return
	}
	for i := range x.Prefixes {
		p := &x.Prefixes[i]
		f := g.next()
		fam := 1
		if len(p.Network.IP) == 16 {
			fam = 2
		}
		ones, bits := p.Network.Mask.Size()
		u := uint64(fam)<<16 | uint64(ones)<<8
		if p.Negation {
			u |= 1
		}
		if u != f.u || bits != 8*len(p.Network.IP) || !refBytesEqual([]byte(p.Network.IP), f.b) {
			g.fail("apl-item")
		}
	}
	if f := g.next(); int(f.u) != len(x.Prefixes) {
		g.fail("apl-count")
	}
}
