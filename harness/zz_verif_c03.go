package dns

func init() {
	vRegister("H_C03_wire_roundtrip", H_C03_wire_roundtrip)
	vRegister("H_C03_text", H_C03_text)
	vRegister("H_C03_limits_text", H_C03_limits_text)
	vRegister("H_C03_limits_wire", H_C03_limits_wire)
	vRegister("H_C03_vacuity", H_C03_vacuity)
}

func refLabelsEqual(a, b [][]byte) bool {
	if len(a) != len(b) {
		return false
	}
	eq := true
	for i := range a {
		if !refBytesEqual(a[i], b[i]) {
			eq = false
		}
	}
	return eq
}

// refIsFqdn: the text ends in a dot that is not escaped (an even number of backslashes before it).
func refIsFqdn(s string) bool {
	n := len(s)
	if n == 0 || s[n-1] != '.' {
		return false
	}
	k := 0
	for i := n - 2; i >= 0 && s[i] == '\\'; i-- {
		k++
	}
	return k%2 == 0
}

// H_C03_wire_roundtrip: every wire name unpacks to text that (a) decodes, by the RFC 1035
// reference reader, to exactly the same octets (unambiguous escaping) and (b) packs back to
// the identical octets; IsDomainName accepts it.
func H_C03_wire_roundtrip() {
	maxL := vParam("C03.labels", 3)
	maxO := vParam("C03.octets", 2)
	nl := vChoice("nl", maxL+1)
	labels := vWireLabels("n", nl, maxO)
	w := refWire(labels)
	s, off, err := UnpackDomainName(w, 0)
	vReach("unpacked")
	vObserve("unpack", s, off, err)
	vAssert(err == nil && off == len(w), "unpack-accepts-valid")
	if err != nil {
		return
	}
	got, fq, ok := refParseName(s)
	vAssert(ok && fq, "text-is-wellformed-fqdn")
	vAssert(ok && refLabelsEqual(got, labels), "text-decodes-to-same-octets")
	buf := make([]byte, len(w)+2)
	n, perr := PackDomainName(s, buf, 0, nil, false)
	vAssert(perr == nil && n == len(w), "pack-accepts-own-output")
	if perr == nil && n == len(w) {
		vAssert(refBytesEqual(buf[:n], w), "pack-restores-octets")
	}
	lab, valid := IsDomainName(s)
	vAssert(valid && (nl == 0 || lab == nl), "isdomainname-accepts-own-output")
	vAssert(IsFqdn(s), "own-output-is-fqdn")
	// Name.String re-escapes presentation text: it must denote the same octets
	ns := Name(s).String()
	g2, fq2, ok2 := refParseName(ns)
	vAssert(ok2 && fq2 && refLabelsEqual(g2, labels), "name-string-same-octets")
}

// H_C03_text: arbitrary text. For fully-qualified text: IsDomainName ⇔ PackDomainName accepts ⇔
// (no empty label ∧ limits), and the packed octets are the reference wire form. Text that is not
// fully qualified is refused by the packer.
func H_C03_text() {
	maxN := vParam("C03.textlen", 4)
	n := 1 + vChoice("len", maxN)
	tb := vBytes("t", n)
	s := string(tb)
	fq := refIsFqdn(s)
	vAssert(IsFqdn(s) == fq, "isfqdn-matches-reference")
	buf := make([]byte, 2*n+4)
	if !fq {
		_, err := PackDomainName(s, buf, 0, nil, false)
		vAssert(err != nil, "pack-refuses-unqualified")
		return
	}
	vReach("fq-text")
	labels, pfq, ok := refParseName(s)
	valid := ok && pfq && refLabelsValid(labels)
	_, idn := IsDomainName(s)
	off, err := PackDomainName(s, buf, 0, nil, false)
	vObserve("text", s, idn, err)
	vAssert(idn == valid, "isdomainname-iff-reference-valid")
	vAssert((err == nil) == valid, "pack-accepts-iff-reference-valid")
	if valid && err == nil {
		w := refWire(labels)
		vAssert(off == len(w) && refBytesEqual(buf[:off], w), "pack-produces-reference-wire")
		// and the unpacker accepts what was emitted
		_, uoff, uerr := UnpackDomainName(buf[:off], 0)
		vAssert(uerr == nil && uoff == off, "unpack-accepts-packed")
	}
}

// vLetters: k octets assumed to be lower-case letters (no escapes, no forks).
func vLetters(name string, k int) []byte {
	b := vBytes(name, k)
	for i := range b {
		vAssume(b[i] >= 'a' && b[i] <= 'z')
	}
	return b
}

// limit shapes: label lengths around 63 and totals around 255
func vLimitShape() []int {
	switch vChoice("shape", 14) {
	case 0:
		return []int{60}
	case 1:
		return []int{62, 1}
	case 2:
		return []int{63}
	case 3:
		return []int{64}
	case 4:
		return []int{65, 2}
	case 5:
		return []int{1, 66}
	case 6:
		return []int{63, 63, 63, 57} // wire 250
	case 7:
		return []int{63, 63, 63, 60} // 253
	case 8:
		return []int{63, 63, 63, 61} // 254
	case 9:
		return []int{63, 63, 63, 62} // 255: wire = 64*3+63+1 = 256? see refWireLen
	case 10:
		return []int{63, 63, 63, 63} // 257
	case 11:
		return []int{63, 63, 62, 61, 1} // 255
	case 12:
		return []int{63, 63, 62, 62, 1} // 256
	default:
		return []int{61, 63, 63, 63, 1, 1} // 258+
	}
}

// H_C03_limits_text: the three predicates agree with "label <= 63 ∧ wire <= 255" in the window
// around the limits; one octet (first/middle/last position) is written with each escape spelling.
func H_C03_limits_text() {
	shape := vLimitShape()
	labels := make([][]byte, len(shape))
	for i, ln := range shape {
		labels[i] = vLetters("l"+string(rune('0'+i)), ln)
	}
	// text: labels joined by dots; one chosen octet is spelled as an escape
	spell := vChoice("spell", 4) // 0 none, 1 \DDD of an arbitrary octet, 2 \c of an arbitrary non-digit octet, 3 \DDD of a letter
	pos := vChoice("pos", 3)     // first, middle, last octet of the last label
	li := len(labels) - 1
	pi := 0
	switch pos {
	case 1:
		pi = len(labels[li]) / 2
	case 2:
		pi = len(labels[li]) - 1
	}
	var x byte
	if spell == 1 || spell == 2 {
		x = vU8("x")
		if spell == 2 {
			vAssume(!refIsDigit(x))
		}
		labels[li][pi] = x
	} else {
		x = labels[li][pi]
	}
	var tb []byte
	for i, l := range labels {
		for j, c := range l {
			if i == li && j == pi && spell != 0 {
				if spell == 2 {
					tb = append(tb, '\\', c)
				} else {
					tb = append(tb, '\\', '0'+c/100, '0'+(c/10)%10, '0'+c%10)
				}
				continue
			}
			tb = append(tb, c)
		}
		tb = append(tb, '.')
	}
	s := string(tb)
	valid := refLabelsValid(labels)
	vReach("limits-built")
	_, idn := IsDomainName(s)
	buf := make([]byte, 300)
	off, err := PackDomainName(s, buf, 0, nil, false)
	vObserve("limits", len(s), idn, err, off)
	vAssertExcept(idn == valid, "isdomainname-iff-within-limits", refWireLen(labels) > 255, "C03-long-name")
	vAssertExcept((err == nil) == valid, "pack-accepts-iff-within-limits", refWireLen(labels) > 255, "C03-long-name")
	if err == nil && valid {
		w := refWire(labels)
		vAssert(off == len(w) && refBytesEqual(buf[:off], w), "pack-produces-reference-wire")
		_, uoff, uerr := UnpackDomainName(buf[:off], 0)
		vAssert(uerr == nil && uoff == off, "never-emits-a-name-it-rejects")
	}
	if err == nil && !valid {
		// whatever the packer emitted, the unpacker's verdict shows the library emitting a name it rejects
		_, _, uerr := UnpackDomainName(buf[:off], 0)
		vAssertExcept(uerr == nil, "never-emits-a-name-it-rejects", refWireLen(labels) > 255, "C03-long-name")
	}
}

// H_C03_limits_wire: the unpacker enforces exactly the 255-octet limit (labels <= 63 by construction).
func H_C03_limits_wire() {
	var shape []int
	switch vChoice("shape", 6) {
	case 0:
		shape = []int{63, 63, 63, 59} // 252
	case 1:
		shape = []int{63, 63, 63, 60} // 253
	case 2:
		shape = []int{63, 63, 63, 61} // 254
	case 3:
		shape = []int{63, 63, 62, 61, 1} // 255
	case 4:
		shape = []int{63, 63, 63, 62} // 256
	default:
		shape = []int{63, 63, 63, 63} // 257
	}
	labels := make([][]byte, len(shape))
	for i, ln := range shape {
		labels[i] = vLetters("l"+string(rune('0'+i)), ln)
	}
	w := refWire(labels)
	s, off, err := UnpackDomainName(w, 0)
	vObserve("limw", len(w), off, err)
	vAssert((err == nil) == (len(w) <= 255), "unpack-accepts-iff-255")
	if err == nil {
		got, fq, ok := refParseName(s)
		vAssert(ok && fq && refLabelsEqual(got, labels), "text-decodes-to-same-octets")
		vAssert(off == len(w), "unpack-consumes-name")
	}
}

func H_C03_vacuity() {
	labels := vWireLabels("n", 1, 1)
	w := refWire(labels)
	s, _, err := UnpackDomainName(w, 0)
	vAssume(err == nil)
	vAssert(len(s) != 3, "vacuity-must-fail")
}
