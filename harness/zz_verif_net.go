package dns

// Harness network objects: no real I/O is reachable from a harness. A vConn serves a scripted byte stream in
// chunks whose sizes are chosen by the harness (symbolic), and records what is written to it.

import (
	"io"
	"net"
	"time"
)

type vAddr string

func (a vAddr) Network() string { return "verif" }
func (a vAddr) String() string  { return string(a) }

type vTimeoutErr struct{}

func (vTimeoutErr) Error() string   { return "verif: i/o timeout" }
func (vTimeoutErr) Timeout() bool   { return true }
func (vTimeoutErr) Temporary() bool { return false }

// vConn implements net.Conn.
type vConn struct {
	in      []byte // stream to serve
	pos     int
	chunk   func(want, avail int) int // how many octets the next Read returns (1..min(want, avail)); nil: as many as possible
	endErr  error                     // returned when the stream is exhausted (default io.EOF)
	writes  [][]byte
	closed  bool
	reads   int
	onRead  func(c *vConn)
	deadlines int
}

func (c *vConn) Read(p []byte) (int, error) {
	c.reads++
	if c.onRead != nil {
		c.onRead(c)
	}
	if c.closed {
		return 0, net.ErrClosed
	}
	avail := len(c.in) - c.pos
	if avail == 0 || len(p) == 0 {
		if avail == 0 {
			if c.endErr != nil {
				return 0, c.endErr
			}
			return 0, io.EOF
		}
		return 0, nil
	}
	n := len(p)
	if n > avail {
		n = avail
	}
	if c.chunk != nil {
		n = c.chunk(len(p), avail)
	}
	copy(p, c.in[c.pos:c.pos+n])
	c.pos += n
	return n, nil
}

func (c *vConn) Write(p []byte) (int, error) {
	if c.closed {
		return 0, net.ErrClosed
	}
	c.writes = append(c.writes, append([]byte{}, p...))
	return len(p), nil
}
func (c *vConn) Close() error                       { c.closed = true; return nil }
func (c *vConn) LocalAddr() net.Addr                { return vAddr("local") }
func (c *vConn) RemoteAddr() net.Addr               { return vAddr("remote") }
func (c *vConn) SetDeadline(t time.Time) error      { c.deadlines++; return nil }
func (c *vConn) SetReadDeadline(t time.Time) error  { c.deadlines++; return nil }
func (c *vConn) SetWriteDeadline(t time.Time) error { c.deadlines++; return nil }

// vPacketConn implements net.PacketConn (and, through vPCConn, a connected datagram net.Conn for the client).
type vPacketConn struct {
	in     [][]byte // datagrams to deliver
	pos    int
	endErr error
	onEnd  func()
	writes [][]byte
	closed bool
	bufs   [][]byte // every buffer ReadFrom was handed (the server's pooled receive buffers)
}

// scribbleOne overwrites the k-th receive buffer handed to ReadFrom with the given octets (repeated): once the
// server has put a buffer back into its pool anybody may write to it.
func (c *vPacketConn) scribbleOne(k int, pattern []byte) {
	if k < len(c.bufs) {
		b := c.bufs[k]
		for i := range b {
			b[i] = pattern[i%len(pattern)]
		}
	}
}

func (c *vPacketConn) ReadFrom(p []byte) (int, net.Addr, error) {
	c.bufs = append(c.bufs, p)
	if c.pos >= len(c.in) {
		if c.onEnd != nil {
			c.onEnd()
		}
		if c.endErr != nil {
			return 0, nil, c.endErr
		}
		return 0, nil, vTimeoutErr{}
	}
	d := c.in[c.pos]
	c.pos++
	n := copy(p, d)
	return n, vAddr("client"), nil
}
func (c *vPacketConn) WriteTo(p []byte, a net.Addr) (int, error) {
	c.writes = append(c.writes, append([]byte{}, p...))
	return len(p), nil
}
func (c *vPacketConn) Close() error                       { c.closed = true; return nil }
func (c *vPacketConn) LocalAddr() net.Addr                { return vAddr("local") }
func (c *vPacketConn) SetDeadline(t time.Time) error      { return nil }
func (c *vPacketConn) SetReadDeadline(t time.Time) error  { return nil }
func (c *vPacketConn) SetWriteDeadline(t time.Time) error { return nil }

// vDgramConn: a connected datagram socket as a client sees it: net.Conn + net.PacketConn (so that the library's
// isPacketConn treats it as packet oriented); each Read returns one whole datagram.
type vDgramConn struct {
	vPacketConn
}

func (c *vDgramConn) Read(p []byte) (int, error) {
	n, _, err := c.ReadFrom(p)
	return n, err
}
func (c *vDgramConn) Write(p []byte) (int, error) { return c.WriteTo(p, nil) }
func (c *vDgramConn) RemoteAddr() net.Addr         { return vAddr("server") }
