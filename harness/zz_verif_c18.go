package dns

import "net"

func init() {
	vRegister("H_C18_sign", H_C18_sign)
	vRegister("H_C18_tamper", H_C18_tamper)
	vRegister("H_C18_tamper_struct", H_C18_tamper_struct)
	vRegister("H_C18_window", H_C18_window)
	vRegister("H_C18_hostile", H_C18_hostile)
	vRegister("H_C18_arcount", H_C18_arcount)
	vRegister("H_C18_vacuity", H_C18_vacuity)
}

// vC18Concrete: build the message/SIG from fixed values instead of symbolic ones (structure-tamper harness).
var vC18Concrete bool

func vcU8(n string, def uint8) uint8 {
	if vC18Concrete {
		return def
	}
	return vU8(n)
}
func vcU16(n string, def uint16) uint16 {
	if vC18Concrete {
		return def
	}
	return vU16(n)
}
func vcU32(n string, def uint32) uint32 {
	if vC18Concrete {
		return def
	}
	return vU32(n)
}

func vC18Alg() uint8 {
	n := vParam("C18.algs", len(vSigAlgs))
	return vSigAlgs[vChoice("alg", n)]
}

func vTestKEY(owner string, alg uint8) *KEY {
	return &KEY{DNSKEY{Hdr: RR_Header{Name: owner, Rrtype: TypeKEY, Class: ClassINET, Ttl: 3600}, Flags: 256, Protocol: 3, Algorithm: alg, PublicKey: vPubBase64(alg)}}
}

// vC18Msg: a message whose shape (sections, shared names, a long owner so that compression saves
// more than the length of the SIG record) is chosen per path and whose ID, flag bits and one letter are symbolic.
func vC18Msg() *Msg {
	m := new(Msg)
	m.Id = vcU16("id", 0xBEEF)
	m.Response = true
	m.Opcode = int(vcU8("opcode", 5) & 0xF)
	c := vcU8("letter", 'Q')
	vAssume(c >= 'a' && c <= 'z' || c >= 'A' && c <= 'Z')
	short := string([]byte{c}) + ".ex."
	long := make([]byte, 50)
	for i := range long {
		long[i] = 'l'
	}
	long[0] = c
	longName := string(long) + ".ex."
	switch vC18Shape() {
	case 0: // header only
	case 1:
		m.Question = []Question{{Name: short, Qtype: TypeA, Qclass: ClassINET}}
	case 2:
		m.Question = []Question{{Name: short, Qtype: TypeA, Qclass: ClassINET}}
		m.Answer = []RR{&A{Hdr: RR_Header{Name: short, Rrtype: TypeA, Class: ClassINET, Ttl: 60}, A: net.IPv4(192, 0, 2, 1)}}
	case 3: // compression saves ~50 octets per repeated owner
		m.Question = []Question{{Name: longName, Qtype: TypeNS, Qclass: ClassINET}}
		m.Answer = []RR{&NS{Hdr: RR_Header{Name: longName, Rrtype: TypeNS, Class: ClassINET, Ttl: 60}, Ns: "ns." + longName}}
		m.Ns = []RR{&NS{Hdr: RR_Header{Name: longName, Rrtype: TypeNS, Class: ClassINET, Ttl: 60}, Ns: "ns2." + longName}}
	case 4: // an additional record already present (ARCOUNT 1 -> 2)
		m.Question = []Question{{Name: short, Qtype: TypeTXT, Qclass: ClassINET}}
		m.Extra = []RR{&TXT{Hdr: RR_Header{Name: short, Rrtype: TypeTXT, Class: ClassINET, Ttl: 1}, Txt: []string{string([]byte{vcU8("txt", 't')})}}}
	case 6: // 255 additional records already present: ARCOUNT 0x00FF -> 0x0100
		m.Question = []Question{{Name: short, Qtype: TypeA, Qclass: ClassINET}}
		for i := 0; i < 255; i++ {
			m.Extra = append(m.Extra, &NULL{Hdr: RR_Header{Name: ".", Rrtype: TypeNULL, Class: ClassINET}})
		}
	default: // update-style: no question, records in authority
		m.Ns = []RR{&MX{Hdr: RR_Header{Name: short, Rrtype: TypeMX, Class: ClassINET, Ttl: 60}, Preference: vcU16("pref", 10), Mx: "m." + short}}
	}
	if vC18Concrete {
		m.Compress = vChoice("compress", 2) == 1
	} else {
		m.Compress = vBool("compress")
	}
	return m
}

// vC18Shape: message shape; C18.shapes restricts to the first k of the order 1,2,4,5,0,3,6.
func vC18Shape() int {
	order := []int{1, 2, 4, 5, 0, 3, 6}
	return order[vChoice("shape", vParam("C18.shapes", 7))]
}

func vC18Sig(alg uint8, signer string) *SIG {
	s := new(SIG)
	s.KeyTag = vcU16("keytag", 12345)
	vAssume(s.KeyTag != 0)
	s.SignerName = signer
	s.Algorithm = alg
	// times relative to the clock reading of this run (engine: symbolic instant; native replay: real clock).
	// Offsets are signed and at most 2^30 s, the clock is between 2^30 and 2^31 (2004..2038), so that no 32-bit
	// wrap-around occurs and every condition on the window depends on the offsets only.
	now := vNow()
	vAssume(now >= 1<<30 && now < 1<<31)
	dinc, dexp := int32(vcU32("dinc", 300)), int32(vcU32("dexp", 300))
	vAssume(dinc >= -(1<<30) && dinc <= 1<<30 && dexp >= -(1<<30) && dexp <= 1<<30)
	s.Inception = uint32(now - int64(dinc))
	s.Expiration = uint32(now + int64(dexp))
	return s
}

// refSIG0Rdata: RFC 2931 section 4 / RFC 2535 section 4.1 SIG RDATA without the signature.
func refSIG0Rdata(s *SIG, signerWire []byte) []byte {
	b := []byte{0, 0, s.Algorithm, 0, 0, 0, 0, 0,
		byte(s.Expiration >> 24), byte(s.Expiration >> 16), byte(s.Expiration >> 8), byte(s.Expiration),
		byte(s.Inception >> 24), byte(s.Inception >> 16), byte(s.Inception >> 8), byte(s.Inception),
		byte(s.KeyTag >> 8), byte(s.KeyTag)}
	return append(b, signerWire...)
}

func vC18SignerName() (string, []byte) {
	c := vcU8("signer", 's')
	vAssume(c >= 'a' && c <= 'z' || c >= 'A' && c <= 'Z')
	return string([]byte{c}) + "k.ex.", []byte{2, c, 'k', 2, 'e', 'x', 0}
}

// vC18Signed signs a generated message and checks the layout of the result; returns what later harnesses need.
func vC18Signed() (out, packed, rdata []byte, alg uint8, s *SIG, signer string) {
	alg = vC18Alg()
	m := vC18Msg()
	signer, signerWire := vC18SignerName()
	s = vC18Sig(alg, signer)
	packed, perr := m.Copy().Pack()
	vAssume(perr == nil)
	out, err := s.Sign(vSigner{alg}, m)
	vReach("signed")
	vObserve("sign", err, len(packed))
	vAssert(err == nil, "sign-succeeds-for-every-message")
	if err != nil {
		return nil, nil, nil, alg, s, signer
	}
	rdata = refSIG0Rdata(s, signerWire)
	// layout: packed message with ARCOUNT+1, then root owner, TYPE SIG, CLASS ANY, TTL 0, RDLENGTH, RDATA, signature
	n := len(packed)
	vAssert(len(out) > n+11+len(rdata), "output-longer-than-message-plus-sig-header")
	if len(out) <= n+11+len(rdata) {
		return nil, nil, nil, alg, s, signer
	}
	ar := uint16(packed[10])<<8 | uint16(packed[11])
	ok := refBytesEqual(out[:10], packed[:10]) && out[10] == byte((ar+1)>>8) && out[11] == byte(ar+1) && refBytesEqual(out[12:n], packed[12:])
	vAssert(ok, "output-starts-with-packed-message-arcount-plus-one")
	sigLen := len(out) - n - 11 - len(rdata)
	hdr := []byte{0, 0, 24, 0, 255, 0, 0, 0, 0, byte((len(rdata) + sigLen) >> 8), byte(len(rdata) + sigLen)}
	vAssert(refBytesEqual(out[n:n+11], hdr), "sig-record-header-root-SIG-ANY-ttl0-rdlength")
	vAssert(refBytesEqual(out[n+11:n+11+len(rdata)], rdata), "sig-rdata-layout")
	sig := out[n+11+len(rdata):]
	// RFC 2931 section 3.1: data = RDATA (without signature) || the message before the SIG was added
	data := append(append([]byte{}, rdata...), packed...)
	vAssert(vVerifyRef(alg, data, sig), "signature-is-over-sig-rdata-then-original-message")
	vC18LastSig = sig
	return out, packed, rdata, alg, s, signer
}

var vC18LastSig []byte

// H_C18_sign: any message can be signed; layout; the result verifies inside the validity window.
func H_C18_sign() {
	out, _, _, alg, s, signer := vC18Signed()
	if out == nil {
		return
	}
	vAssert(s.Signature == refBase64(vC18LastSig), "signature-field-filled")
	now := uint32(vNow())
	vAssume(s.Inception <= now && now <= s.Expiration)
	key := vTestKEY(signer, alg)
	err := s.Verify(key, out)
	vObserve("verify", err)
	vAssert(err == nil, "signed-message-verifies")
	// signing again with the same SIG value (as a client signing a second query does) verifies as well
	if vChoice("resign", 2) == 1 {
		m := new(Msg)
		m.Id = vU16("id2")
		m.Question = []Question{{Name: "second.ex.", Qtype: TypeSOA, Qclass: ClassINET}}
		out2, err2 := s.Sign(vSigner{alg}, m)
		vAssert(err2 == nil, "second-sign-succeeds")
		if err2 == nil {
			vAssert(s.Verify(key, out2) == nil, "message-signed-with-a-reused-sig-verifies")
		}
	}
	// the SIG record found when unpacking the signed octets verifies as well
	m2 := new(Msg)
	uerr := m2.Unpack(out)
	vAssert(uerr == nil && len(m2.Extra) > 0, "signed-octets-unpack")
	if uerr == nil && len(m2.Extra) > 0 {
		s2, isSig := m2.Extra[len(m2.Extra)-1].(*SIG)
		vAssert(isSig, "last-additional-is-the-sig")
		if isSig {
			vAssert(s2.Verify(key, out) == nil, "unpacked-sig-verifies")
		}
	}
}

// vC18Positions splits the octets of the signed message into structure-bearing ones (section counts, label
// length/pointer/terminator octets of owner and question names, RDLENGTH octets, the signer name's length octets)
// and content octets (everything else in the message and in the SIG RDATA, plus three signature octets).
func vC18Positions(out, packed, rdata []byte) (structural, content []int) {
	n := len(packed)
	isStruct := map[int]bool{}
	for i := 4; i < 12; i++ {
		isStruct[i] = true
	}
	off := 12
	name := func() {
		for off < n {
			c := packed[off]
			isStruct[off] = true
			if c >= 0xC0 {
				isStruct[off+1] = true
				off += 2
				return
			}
			off += 1 + int(c)
			if c == 0 {
				return
			}
		}
	}
	qd := int(packed[4])<<8 | int(packed[5])
	rrs := int(packed[6])<<8 | int(packed[7]) + int(packed[8])<<8 | int(packed[9]) + int(packed[10])<<8 | int(packed[11])
	for i := 0; i < qd; i++ {
		name()
		off += 4
	}
	for i := 0; i < rrs; i++ {
		name()
		off += 8
		isStruct[off], isStruct[off+1] = true, true
		off += 2 + (int(packed[off])<<8 | int(packed[off+1]))
	}
	// signer name inside the SIG RDATA: <2>xk<2>ex<0>
	base := n + 11 + 18
	for _, d := range []int{0, 3, 6} {
		isStruct[base+d] = true
	}
	for i := 0; i < n; i++ {
		if isStruct[i] {
			structural = append(structural, i)
		} else {
			content = append(content, i)
		}
	}
	for i := 0; i < len(rdata); i++ {
		if isStruct[n+11+i] {
			structural = append(structural, n+11+i)
		} else {
			content = append(content, n+11+i)
		}
	}
	sigStart := n + 11 + len(rdata)
	content = append(content, sigStart, (sigStart+len(out))/2, len(out)-1)
	return
}

func vC18TamperAt(structural bool) {
	out, packed, rdata, alg, s, signer := vC18Signed()
	if out == nil {
		return
	}
	now := uint32(vNow())
	vAssume(s.Inception <= now && now <= s.Expiration)
	key := vTestKEY(signer, alg)
	st, ct := vC18Positions(out, packed, rdata)
	pos := ct
	if structural {
		pos = st
	}
	p := pos[vChoice("pos", len(pos))]
	bit := vChoice("bit", 8)
	t := append([]byte{}, out...)
	t[p] ^= 1 << uint(bit)
	// the validity window Verify applies is read from the tampered octets; a flipped time bit may move "now" outside
	// it, which is also a failure, so nothing needs to be assumed about it
	vReach("tampered")
	err := s.Verify(key, t)
	vObserve("tamper", p, bit, err)
	vAssert(err != nil, "altered-bit-fails-verification")
}

// H_C18_tamper: flipping any single bit of a content octet of the message or of the SIG RDATA makes Verify fail
// (message contents symbolic).
func H_C18_tamper() { vC18TamperAt(false) }

// H_C18_tamper_struct: the same for the structure-bearing octets; here the message is built from fixed values,
// because a moved record boundary makes Verify parse the (otherwise symbolic) signature octets as names.
func H_C18_tamper_struct() {
	vC18Concrete = true
	vFixNow(1800000000)
	defer func() { vC18Concrete = false }()
	vC18TamperAt(true)
}

// H_C18_window: Verify succeeds inside [inception, expiration] and fails outside; signer name must match the key.
func H_C18_window() {
	out, _, _, alg, s, signer := vC18Signed()
	if out == nil {
		return
	}
	now := uint32(vNow())
	// no order is assumed between inception and expiration: an inverted pair denotes an empty window
	inside := s.Inception <= now && now <= s.Expiration
	var keyOwner string
	same := false
	switch vChoice("keyowner", 4) {
	case 0: // the signer name, one letter in either case
		kc := vU8("keyowner")
		vAssume(kc >= 'a' && kc <= 'z' || kc >= 'A' && kc <= 'Z')
		keyOwner = string([]byte{kc}) + "k.ex."
		same = refLowerByte(kc) == refLowerByte(signer[0])
	case 1: // parent of the signer name
		keyOwner = "ex."
	case 2:
		keyOwner = "."
	default: // child of the signer name
		keyOwner = "c." + signer
	}
	key := vTestKEY(keyOwner, alg)
	vReach("window")
	err := s.Verify(key, out)
	vObserve("window", inside, same, err)
	vAssert((err == nil) == (inside && same), "verifies-iff-inside-window-and-signer-is-key-owner")
}

// H_C18_hostile: Verify on arbitrary octets of at least header size returns (an error) instead of panicking.
// Two families keep UnpackDomainName's pointer chasing through symbolic octets (C02's subject) from multiplying the
// paths: (A) header fully symbolic, body octets below 0xC0 (labels, lengths, counts - no compression pointers);
// (B) body fully symbolic (pointers included), ID/flags zero and each section count one of 0, 1, 2, 255, 65535.
func H_C18_hostile() {
	maxN := vParam("C18.hostile", 6)
	n := vChoice("len", maxN+1)
	var buf []byte
	if vChoice("family", 2) == 0 {
		buf = vBytes("b", 12+n)
		for i := 12; i < len(buf); i++ {
			vAssume(buf[i] < 0xC0)
		}
	} else {
		buf = make([]byte, 12)
		for i := 0; i < 4; i++ {
			c := []uint16{0, 1, 2, 255, 65535}[vChoice("count"+vItoa(i), 5)]
			buf[4+2*i], buf[5+2*i] = byte(c>>8), byte(c)
		}
		buf = append(buf, vBytes("body", n)...)
	}
	alg := vSigAlgs[vChoice("alg", 2)*3] // RSASHA1 or ECDSAP256SHA256 (the two signature-splitting code paths)
	s := &SIG{}
	s.KeyTag, s.SignerName, s.Algorithm = 1, "k.ex.", alg
	key := vTestKEY("k.ex.", alg)
	vReach("hostile")
	err := s.Verify(key, buf)
	vObserve("hostile", err)
	vAssert(err != nil || n >= 0, "returns")
}

// H_C18_arcount: a message signed per RFC 2931 over RDATA || original message verifies for every number of
// additional records already present, in particular when ARCOUNT does not fit one octet (255 -> 256, 256 -> 257).
func H_C18_arcount() {
	alg := vSigAlgs[vChoice("alg", 2)*5] // RSASHA1 (hashed) and ED25519 (identity hash)
	signer, signerWire := vC18SignerName()
	s := vC18Sig(alg, signer)
	s.Hdr = RR_Header{Name: ".", Rrtype: TypeSIG, Class: ClassANY}
	rdata := refSIG0Rdata(s, signerWire)
	k := []int{0, 1, 255, 256}[vChoice("extra", 4)]
	orig := []byte{vU8("id0"), vU8("id1"), vU8("f0"), vU8("f1"), 0, 0, 0, 0, 0, 0, byte(k >> 8), byte(k)}
	for i := 0; i < k; i++ { // minimal additional records: root owner, TYPE NULL, CLASS IN, TTL 0, RDLENGTH 0
		orig = append(orig, 0, 0, 10, 0, 1, 0, 0, 0, 0, 0, 0)
	}
	data := append(append([]byte{}, rdata...), orig...)
	sig := vSignRef(alg, data)
	out := append([]byte{}, orig...)
	out[10], out[11] = byte((k+1)>>8), byte(k+1)
	out = append(out, 0, 0, 24, 0, 255, 0, 0, 0, 0, byte((len(rdata)+len(sig))>>8), byte(len(rdata)+len(sig)))
	out = append(out, rdata...)
	out = append(out, sig...)
	now := uint32(vNow())
	vAssume(s.Inception <= now && now <= s.Expiration)
	vReach("arcount")
	err := s.Verify(vTestKEY(signer, alg), out)
	vObserve("arcount", k, err)
	vAssert(err == nil, "reference-signed-message-verifies-for-every-arcount")
}

func H_C18_vacuity() {
	out, _, _, _, _, _ := vC18Signed()
	vAssert(out == nil, "vacuity-twin")
}
